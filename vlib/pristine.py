"""Run one harness function in a FRESH interpreter: python -m vlib.pristine pkg.mod.func < payload.json

Used for ordered probe sequences whose outcome may depend on process history
(module-level memo tables): executed in a pristine process they are a pure
function of the payload, so a failing sequence replays identically."""
import importlib
import json
import sys

MARK = "@@PRISTINE-RESULT@@"


def main():
    mod, fn = sys.argv[1].rsplit(".", 1)
    payload = json.loads(sys.stdin.read())
    res = getattr(importlib.import_module(mod), fn)(payload)
    sys.stdout.write("\n" + MARK + json.dumps(res) + "\n")


if __name__ == "__main__":
    main()

"""Typed config model: JSON-able dicts <-> live schedule objects, Hypothesis
strategies (by construction, no filtering), exhaustive boxes, shrinker.

A config is {"cls": <name>, class parameters..., "n": true step count,
"passes": adjoint passes to request, "c8": [uf, ub, wd, rd] in eighths}.
Costs are stored as integer eighths so that JSON round-trips exactly and the
library's float arithmetic is exact (dyadic).
"""
import hashlib
import itertools
import json
import math

OFFLINE_SINGLE = ("Multistage", "Mixed", "Revolve", "DiskRevolve",
                  "PeriodicDiskRevolve", "HRevolve")
REVOLVE_FAMILY = ("Revolve", "DiskRevolve", "PeriodicDiskRevolve", "HRevolve")
ONLINE = ("None", "SingleMemory", "SingleDisk", "TwoLevel")
ALL_CLASSES = ("None", "SingleMemory", "SingleDisk", "Multistage", "Mixed",
               "TwoLevel") + REVOLVE_FAMILY
DEFAULT_C8 = [8, 8, 16, 16]


def variant(cfg):
    """Class variant name (11 variants)."""
    c = cfg["cls"]
    if c == "SingleDisk":
        return "SingleDisk(move)" if cfg["move"] else "SingleDisk(copy)"
    return c


def permitted_passes(cfg):
    """Adjoint calculations permitted per the class docstrings (DESIGN 2.1).
    None = unlimited."""
    c = cfg["cls"]
    if c == "None":
        return 0
    if c in OFFLINE_SINGLE:
        return 1
    if c == "SingleDisk":
        return 1 if cfg["move"] else None
    return None  # SingleMemory, TwoLevel


def is_online(cfg):
    return cfg["cls"] in ONLINE


def costs(cfg):
    """Cost vector as floats: numerators cfg["c8"] over the denominator cfg["den"] (default 8: dyadic
    eighths, exact in floating point; den=10: one-decimal costs, inexact; den=8*2**40 etc.: other units)."""
    den = cfg.get("den", 8)
    return [k / den for k in cfg.get("c8", DEFAULT_C8)]


def key(cfg):
    return json.dumps(cfg, sort_keys=True, separators=(",", ":"))


def chash(cfg):
    return hashlib.sha1(key(cfg).encode()).hexdigest()[:16]


def describe(cfg):
    d = _describe(cfg)
    if cfg.get("late") and "late" not in d:
        d += " finalised %d Forward(s) late" % cfg["late"]
    if cfg.get("np"):
        d += " [integer arguments as numpy.int64]"
    if cfg.get("iter"):
        d += " [driven through iter(schedule)]" if cfg["iter"] is True else " [driven by one `for action in schedule` loop per phase, left with break]"
    if cfg.get("blind"):
        d += " [driver reads no observer]"
    if cfg.get("style"):
        d += " [call style: %s]" % STYLES[cfg["style"]]
    return d


def _describe(cfg):
    c = cfg["cls"]
    if c == "None":
        return "NoneCheckpointSchedule() n=%d" % cfg["n"]
    if c == "SingleMemory":
        return "SingleMemoryStorageSchedule() n=%d passes=%d" % (cfg["n"], cfg["passes"])
    if c == "SingleDisk":
        return "SingleDiskStorageSchedule(move_data=%s) n=%d passes=%d%s" % (cfg["move"], cfg["n"], cfg["passes"], " finalised %d Forward(s) late" % cfg["late"] if cfg.get("late") else "")
    if c == "Multistage":
        return "MultistageCheckpointSchedule(%d,%d,%d,trajectory=%r)" % (cfg["n"], cfg["ram"], cfg["disk"], cfg["traj"])
    if c == "Mixed":
        return "MixedCheckpointSchedule(%d,%d,storage=%s)%s" % (cfg["n"], cfg["s"], cfg["storage"], " [tabulated]" if cfg.get("numba") else "")
    if c == "TwoLevel":
        return "TwoLevelCheckpointSchedule(%d,%d,binomial_storage=%s,binomial_trajectory=%r) n=%d passes=%d" % (
            cfg["period"], cfg["b"], cfg["storage"], cfg["traj"], cfg["n"], cfg["passes"]) + (" finalised %d Forward(s) late" % cfg["late"] if cfg.get("late") else "")
    cs = ",".join("%.12g" % x for x in costs(cfg))
    if c == "HRevolve":
        return "HRevolve(%d,%d,%d,%s)" % (cfg["n"], cfg["s"], cfg["d"], cs)
    return "%s(%d,%d,%s)" % (c, cfg["n"], cfg["s"], cs)


STYLES = {"kw": "every argument by keyword", "kwr": "every argument by keyword, in the reverse of the documented order",
          "pkr": "first argument by position, the others by keyword in the reverse of the documented order", "dflt": "arguments equal to the signature default omitted",
          "ci": "integral costs as Python ints", "npf": "costs as numpy.float64"}


def call_args(cfg):
    """(class name, positional args, keyword args) of the documented constructor call for a config,
    all arguments explicit, in the documented order / by the documented names."""
    from . import lib
    ST = lib.ST
    c = cfg["cls"]
    if c == "None":
        return "NoneCheckpointSchedule", [], {}
    if c == "SingleMemory":
        return "SingleMemoryStorageSchedule", [], {}
    if c == "SingleDisk":
        return "SingleDiskStorageSchedule", [("move_data", cfg["move"])], {}
    if c == "Multistage":
        return "MultistageCheckpointSchedule", [("max_n", cfg["n"]), ("snapshots_in_ram", cfg["ram"]), ("snapshots_on_disk", cfg["disk"])], {"trajectory": cfg["traj"]}
    if c == "Mixed":
        return "MixedCheckpointSchedule", [("max_n", cfg["n"]), ("snapshots", cfg["s"])], {"storage": ST[cfg["storage"]]}
    if c == "TwoLevel":
        return "TwoLevelCheckpointSchedule", [("period", cfg["period"]), ("binomial_snapshots", cfg["b"])], {
            "binomial_storage": ST[cfg["storage"]], "binomial_trajectory": cfg["traj"]}
    uf, ub, wd, rd = costs(cfg)
    if cfg.get("style") == "ci":
        uf, ub, wd, rd = [int(x) if float(x).is_integer() else x for x in (uf, ub, wd, rd)]
    if cfg.get("style") == "npf":
        import numpy as np
        uf, ub, wd, rd = [np.float64(x) for x in (uf, ub, wd, rd)]
    pos = [("max_n", cfg["n"]), ("snapshots_in_ram", cfg["s"])]
    if c == "HRevolve":
        pos.append(("snapshots_on_disk", cfg["d"]))
    pos += [("uf", uf), ("ub", ub), ("wd", wd), ("rd", rd)]
    return c, pos, {}


def build_styled(cfg):
    klass, a, k = styled_call(cfg)
    return klass(*a, **k)


def styled_call(cfg):
    """Other ways of writing the same constructor call (the parameters are equal, so by C15 and by
    every stream property the outcome must be the same): all keywords; defaults omitted, where the
    default is read from the live signature, so a changed default is not this check's business."""
    import inspect
    from . import lib
    name, pos, kw = call_args(cfg)
    klass = getattr(lib.cs, name)
    style = cfg["style"]
    if style == "kw":
        kw = dict(kw)
        kw.update(dict(pos))
        return klass, [], kw
    if style == "kwr":
        allkw = list(pos) + list(kw.items())
        return klass, [], dict(reversed(allkw))
    if style == "pkr":
        allkw = list(pos[1:]) + list(kw.items())
        return klass, [v for _, v in pos[:1]], dict(reversed(allkw))
    if style == "dflt":
        params = inspect.signature(klass.__init__).parameters
        def is_default(k, v):
            d = params[k].default if k in params else inspect.Parameter.empty
            return d is not inspect.Parameter.empty and isinstance(d, bool) == isinstance(v, bool) and d == v
        kw = {k: v for k, v in kw.items() if not is_default(k, v)}
        # trailing positional arguments only (an omitted middle one would shift the rest): pass the
        # remaining optional ones by keyword
        req = [(k, v) for k, v in pos if k not in params or params[k].default is inspect.Parameter.empty]
        opt = [(k, v) for k, v in pos if (k, v) not in req]
        kw.update({k: v for k, v in opt if not is_default(k, v)})
        return klass, [v for _, v in req], kw
    return klass, [v for _, v in pos], kw


def build(cfg):
    """Config -> live schedule object (library exceptions propagate)."""
    from . import lib
    cs, ST = lib.cs, lib.ST
    c = cfg["cls"]
    if cfg.get("style"):
        return build_styled(cfg)
    if cfg.get("np"):
        # integer arguments passed as NumPy integers (e.g. taken from an array shape)
        import numpy as np
        cfg = dict(cfg)
        for k in ("n", "ram", "disk", "s", "d", "period", "b"):
            if k in cfg:
                cfg[k] = np.int64(cfg[k])
    if c == "None":
        return cs.NoneCheckpointSchedule()
    if c == "SingleMemory":
        return cs.SingleMemoryStorageSchedule()
    if c == "SingleDisk":
        return cs.SingleDiskStorageSchedule(move_data=cfg["move"])
    if c == "Multistage":
        return cs.MultistageCheckpointSchedule(cfg["n"], cfg["ram"], cfg["disk"], trajectory=cfg["traj"])
    if c == "Mixed":
        return cs.MixedCheckpointSchedule(cfg["n"], cfg["s"], storage=ST[cfg["storage"]])
    if c == "TwoLevel":
        return cs.TwoLevelCheckpointSchedule(cfg["period"], cfg["b"], binomial_storage=ST[cfg["storage"]],
                                             binomial_trajectory=cfg["traj"])
    uf, ub, wd, rd = costs(cfg)
    if c == "Revolve":
        return cs.Revolve(cfg["n"], cfg["s"], uf, ub, wd, rd)
    if c == "DiskRevolve":
        return cs.DiskRevolve(cfg["n"], cfg["s"], uf, ub, wd, rd)
    if c == "PeriodicDiskRevolve":
        return cs.PeriodicDiskRevolve(cfg["n"], cfg["s"], uf, ub, wd, rd)
    if c == "HRevolve":
        return cs.HRevolve(cfg["n"], cfg["s"], cfg["d"], uf, ub, wd, rd)
    raise ValueError("unknown class %r" % (c,))


def budgets(cfg):
    """(RAM budget, DISK budget) per the C03 statement; None = unbounded."""
    c = cfg["cls"]
    n = cfg["n"]
    if c in ("None", "SingleMemory"):
        return 0, 0
    if c == "SingleDisk":
        return 0, n          # one adjoint-data checkpoint per step, on DISK only
    if c == "Multistage":
        return cfg["ram"], cfg["disk"]
    if c == "Mixed":
        return (cfg["s"], 0) if cfg["storage"] == "RAM" else (0, cfg["s"])
    if c == "TwoLevel":
        periods = -(-n // cfg["period"])
        if cfg["storage"] == "RAM":
            return cfg["b"], periods
        return 0, cfg["b"] + periods
    if c == "Revolve":
        return cfg["s"], 0
    if c in ("DiskRevolve", "PeriodicDiskRevolve"):
        return cfg["s"], None
    if c == "HRevolve":
        return cfg["s"], cfg["d"]
    raise ValueError(c)


def total_units(cfg):
    """Units available for restart checkpoints (for 'tight budget' rules)."""
    c = cfg["cls"]
    if c == "Multistage":
        return cfg["ram"] + cfg["disk"]
    if c == "Mixed":
        return cfg["s"]
    if c == "TwoLevel":
        return cfg["b"] + 1
    if c == "HRevolve":
        return cfg["s"] + cfg["d"]
    if c in ("Revolve",):
        return cfg["s"]
    if c in ("DiskRevolve", "PeriodicDiskRevolve"):
        return cfg["s"]
    return 0


# --------------------------------------------------------------------------
# Hypothesis strategies (construction only; every draw is a valid config)
# --------------------------------------------------------------------------

def strategies(tier):
    from hypothesis import strategies as st

    nmax = 160 if tier == "quick" else 400

    def n_strategy(lo=1):
        # 45 % boundary arithmetic, 40 % mid, 15 % large (one_of() collapses
        # repeated branches, hence the explicit mode draw)
        return st.integers(0, 19).flatmap(
            lambda m: st.integers(lo, 12) if m < 9 else st.integers(13, 64) if m < 17 else st.integers(65, nmax))

    def units(n, lo):
        # 1,2,3 heavy; 15 % uniform in lo..n+2; 15 % exactly n-2, n-1, n
        def pick(m):
            if m < 8:
                return st.integers(max(lo, 1), 3)
            if m < 14:
                return st.integers(max(lo, 1), 6)
            if m < 17:
                return st.integers(lo, n + 2)
            return st.sampled_from([max(lo, n - 2), max(lo, n - 1), max(lo, n)])
        return st.integers(0, 19).flatmap(pick)

    eighth_pos = st.integers(1, 64)
    eighth_nn = st.integers(0, 192)

    @st.composite
    def c8(draw):
        mode = draw(st.integers(0, 19))
        if mode < 3:
            return list(DEFAULT_C8)
        uf = draw(eighth_pos)
        ub = draw(eighth_pos)
        if mode % 2 == 0 and uf == ub:
            ub = uf + 1 if uf < 64 else uf - 1
        wd = 0 if mode in (3, 4, 5, 6) else draw(eighth_nn)
        rd = 0 if mode in (5, 6, 7, 8) else draw(eighth_nn)
        return [uf, ub, wd, rd]

    passes = st.integers(1, 3)
    traj = st.sampled_from(["maximum", "revolve"])
    storage = st.sampled_from(["RAM", "DISK"])

    @st.composite
    def s_none(draw):
        return {"cls": "None", "n": draw(n_strategy()), "passes": 0}

    @st.composite
    def s_singlememory(draw):
        return {"cls": "SingleMemory", "n": draw(n_strategy()), "passes": draw(passes)}

    @st.composite
    def s_singledisk(draw):
        move = draw(st.booleans())
        return {"cls": "SingleDisk", "move": move, "n": draw(n_strategy()),
                "passes": 1 if move else draw(passes)}

    @st.composite
    def s_multistage(draw):
        n = draw(n_strategy())
        lo = 0 if n == 1 else 1
        s = draw(units(n, lo))
        ram = draw(st.integers(0, s))
        disk = s - ram
        # sometimes over-provision one side independently
        if draw(st.integers(0, 9)) == 0:
            disk = draw(st.integers(0 if ram or n == 1 else 1, n + 2))
        return {"cls": "Multistage", "n": n, "ram": ram, "disk": disk,
                "traj": draw(traj), "passes": 1}

    @st.composite
    def s_mixed(draw):
        n = draw(st.one_of(st.integers(1, 12), st.integers(13, 48), st.integers(13, 48),
                           st.integers(49, 100 if tier == "quick" else 250)))
        lo = min(1, n - 1)
        return {"cls": "Mixed", "n": n, "s": draw(units(n, lo)), "storage": draw(storage), "passes": 1}

    @st.composite
    def s_twolevel(draw):
        # periods: small (boundary arithmetic), medium, and large (17..64: long blocks, deep binomial recursion)
        p = draw(st.integers(0, 9).flatmap(lambda m: st.integers(1, 6) if m < 4 else st.integers(7, 16) if m < 7 else st.integers(17, 64)))
        b = draw(st.integers(0, 9).flatmap(lambda m: st.integers(0, 3) if m < 6 else st.integers(4, 10)))
        k = draw(st.integers(0, 6))
        mode = draw(st.integers(0, 4))
        if mode == 0:
            n = max(1, k * p)
        elif mode == 1:
            n = max(1, k * p - 1)
        elif mode == 2:
            n = k * p + 1
        elif mode == 3:
            n = draw(st.integers(1, max(1, p - 1)))
        else:
            n = draw(st.integers(1, 6 * p + 3))
        n = min(n, 400 if tier == "thorough" else 200)
        return {"cls": "TwoLevel", "period": p, "b": b, "storage": draw(storage),
                "traj": draw(traj), "n": n, "passes": draw(passes)}

    def s_rev(cls):
        @st.composite
        def s(draw):
            n = draw(n_strategy())
            cfg = {"cls": cls, "n": n, "s": draw(units(n, 1)), "c8": draw(c8()), "passes": 1}
            return tame_period(cfg)
        return s()

    @st.composite
    def s_hrevolve(draw):
        n = draw(n_strategy())
        s = draw(st.one_of(st.integers(1, 2), st.integers(1, 3), units(n, 1)))
        d = draw(st.one_of(st.integers(0, 3), st.integers(0, 6), st.integers(0, n + 2)))
        return {"cls": "HRevolve", "n": n, "s": s, "d": d, "c8": draw(c8()), "passes": 1}

    return {
        "None": s_none(), "SingleMemory": s_singlememory(), "SingleDisk": s_singledisk(),
        "Multistage": s_multistage(), "Mixed": s_mixed(), "TwoLevel": s_twolevel(),
        "Revolve": s_rev("Revolve"), "DiskRevolve": s_rev("DiskRevolve"),
        "PeriodicDiskRevolve": s_rev("PeriodicDiskRevolve"), "HRevolve": s_hrevolve(),
        "_c8": c8(),
    }


def period_closed_form(cm, c8):
    """Aupy & Herrmann (2017) closed form, exact rationals (see oracles)."""
    from fractions import Fraction
    q = Fraction(c8[2] + c8[3], c8[0])
    t = 0
    while math.comb(cm + 1 + t, t) <= q:
        t += 1
    return math.comb(cm + t, t)


PERIOD_CAP = 400


def tame_period(cfg):
    """PeriodicDiskRevolve builds O(cm * m^2) tables for its period m, which
    explodes for many RAM units and expensive disk (m = C(cm+t, t)); that is a
    cost issue outside every listed property. Map such draws (by construction,
    no rejection) to cheaper disk costs until m <= PERIOD_CAP."""
    if cfg["cls"] != "PeriodicDiskRevolve":
        return cfg
    c8 = list(cfg["c8"])
    while period_closed_form(cfg["s"], c8) > PERIOD_CAP and (c8[2] or c8[3]):
        c8[2] //= 2
        c8[3] //= 2
    cfg = dict(cfg)
    cfg["c8"] = c8
    return cfg


# weights of classes in the mixed sweep (trivial classes rare)
SWEEP_WEIGHTS = {"None": 1, "SingleMemory": 2, "SingleDisk": 3, "Multistage": 8, "Mixed": 7,
                 "TwoLevel": 8, "Revolve": 4, "DiskRevolve": 6, "PeriodicDiskRevolve": 6, "HRevolve": 10}


def sweep_strategy(tier, classes=None, weights=None):
    from hypothesis import strategies as st
    S = strategies(tier)
    names = []
    for c, w in (weights or SWEEP_WEIGHTS).items():
        if classes is None or c in classes:
            names += [c] * w
    # one_of() collapses repeated branches, so weight by an explicit index draw
    base = st.integers(0, len(names) - 1).flatmap(lambda i: S[names[i]])

    def modify(pair):
        # about a third of the draws carry ONE modifier: another driver style, another way of writing
        # the constructor call, NumPy integer arguments (the boxes cover each modifier on small configs;
        # here they meet the whole parameter range)
        cfg, m = pair
        cfg = dict(cfg)
        mods = {0: ("iter", True), 1: ("iter", "loops"), 2: ("blind", True), 3: ("style", "kw"), 4: ("style", "kwr"), 5: ("style", "pkr"),
                6: ("style", "dflt"), 7: ("style", "ci"), 8: ("style", "npf"), 9: ("np", True)}
        if m in mods:
            k, v = mods[m]
            if v in ("ci", "npf") and "c8" not in cfg:
                v = "kw"
            if not (k == "style" and cfg["cls"] in ("None", "SingleMemory")):
                cfg[k] = v
        return cfg
    return st.tuples(base, st.integers(0, 29)).map(modify)


def generate(strategy, count, seed):
    """Draw `count` examples from a strategy with Hypothesis, deterministically
    for a given seed. The test body only collects; execution happens on a
    process pool afterwards (collect-then-shrink, DESIGN 3.2)."""
    import hypothesis
    from hypothesis import given, settings, HealthCheck, Phase
    out = []

    @hypothesis.seed(seed)
    @settings(max_examples=count, database=None, deadline=None, derandomize=False,
              phases=[Phase.generate], suppress_health_check=list(HealthCheck),
              report_multiple_bugs=False)
    @given(strategy)
    def collect(x):
        out.append(x)

    collect()
    return out


# --------------------------------------------------------------------------
# Exhaustive boxes
# --------------------------------------------------------------------------

BOX_C8 = [[8, 8, 16, 16], [8, 80, 16, 16], [80, 8, 16, 16], [8, 16, 24, 4], [8, 8, 0, 0], [16, 8, 4, 40]]


def box(tier, classes=None, N=None, multipass=True):
    """Every config with n <= N (10 quick / 24 thorough)."""
    if N is None:
        N = 10 if tier == "quick" else 24
    want = (lambda c: classes is None or c in classes)
    pmax = 3 if multipass else 1
    if want("None"):
        for n in range(1, N + 1):
            yield {"cls": "None", "n": n, "passes": 0}
    if want("SingleMemory"):
        for n in range(1, N + 1):
            for p in range(1, pmax + 1):
                yield {"cls": "SingleMemory", "n": n, "passes": p}
    if want("SingleDisk"):
        for n in range(1, N + 1):
            yield {"cls": "SingleDisk", "move": True, "n": n, "passes": 1}
            for p in range(1, pmax + 1):
                yield {"cls": "SingleDisk", "move": False, "n": n, "passes": p}
    if want("Multistage"):
        for n in range(1, N + 1):
            for ram in range(0, n + 2):
                for disk in range(0, n + 2):
                    if n > 1 and ram + disk == 0:
                        continue
                    for tr in ("maximum", "revolve"):
                        yield {"cls": "Multistage", "n": n, "ram": ram, "disk": disk, "traj": tr, "passes": 1}
    if want("Mixed"):
        for n in range(1, N + 1):
            for s in range(min(1, n - 1), n + 2):
                for stg in ("RAM", "DISK"):
                    yield {"cls": "Mixed", "n": n, "s": s, "storage": stg, "passes": 1}
    if want("TwoLevel"):
        for p in range(1, 7):
            for b in range(0, 5):
                for stg in ("RAM", "DISK"):
                    for tr in ("maximum", "revolve"):
                        for n in range(1, N + 1):
                            yield {"cls": "TwoLevel", "period": p, "b": b, "storage": stg, "traj": tr,
                                   "n": n, "passes": (2 if multipass and (n + p + b) % 3 == 0 else 1)}
    for c in ("Revolve", "DiskRevolve", "PeriodicDiskRevolve"):
        if want(c):
            for n in range(1, N + 1):
                for s in range(1, n + 2):
                    for c8 in BOX_C8:
                        yield {"cls": c, "n": n, "s": s, "c8": list(c8), "passes": 1}
    if want("HRevolve"):
        for n in range(1, N + 1):
            for s in range(1, min(n + 1, 6) + 1):
                for d in range(0, 5):
                    for c8 in BOX_C8:
                        yield {"cls": "HRevolve", "n": n, "s": s, "d": d, "c8": list(c8), "passes": 1}


def late_finalisation_box(tier):
    """Online schedules whose driver draws 1-3 further Forward actions after the forward was told to
    reach n (the calculation has ended, they are not executed) and only then calls finalize(n)."""
    N = 6 if tier == "quick" else 12
    for n in range(1, N + 1):
        for late in (1, 2, 3):
            yield {"cls": "None", "n": n, "passes": 0, "late": late}
            yield {"cls": "SingleMemory", "n": n, "passes": 2, "late": late}
            yield {"cls": "SingleDisk", "move": False, "n": n, "passes": 2, "late": late}
            yield {"cls": "SingleDisk", "move": True, "n": n, "passes": 1, "late": late}
            for p in (1, 2, 3, 5):
                for b in (0, 2):
                    yield {"cls": "TwoLevel", "period": p, "b": b, "storage": "RAM" if (p + b) % 2 else "DISK", "traj": "maximum" if n % 2 else "revolve",
                           "n": n, "passes": 2, "late": late}


def numpy_typed_box(tier):
    """Every class with its integer arguments (and the finalisation point) given as numpy.int64."""
    N = 9 if tier == "quick" else 16
    for n in range(1, N + 1):
        base = [{"cls": "None", "n": n, "passes": 0}, {"cls": "SingleMemory", "n": n, "passes": 2},
                {"cls": "SingleDisk", "move": False, "n": n, "passes": 2}, {"cls": "SingleDisk", "move": True, "n": n, "passes": 1},
                {"cls": "Multistage", "n": n, "ram": 1, "disk": 1, "traj": "maximum", "passes": 1},
                {"cls": "Multistage", "n": n, "ram": 0, "disk": 2, "traj": "revolve", "passes": 1},
                {"cls": "Mixed", "n": n, "s": 2, "storage": "RAM", "passes": 1},
                {"cls": "TwoLevel", "period": 3, "b": 1, "storage": "RAM", "traj": "maximum", "n": n, "passes": 2},
                {"cls": "Revolve", "n": n, "s": 2, "c8": [8, 8, 16, 16], "passes": 1},
                {"cls": "DiskRevolve", "n": n, "s": 1, "c8": [8, 8, 4, 4], "passes": 1},
                {"cls": "PeriodicDiskRevolve", "n": n, "s": 1, "c8": [8, 8, 16, 16], "passes": 1},
                {"cls": "HRevolve", "n": n, "s": 1, "d": 2, "c8": [8, 8, 4, 4], "passes": 1}]
        for c in base:
            c["np"] = True
            yield c


def call_style_box(tier):
    """Every class constructed the other documented ways: all arguments by keyword, arguments that
    equal the signature default omitted, integral costs as Python ints, costs as numpy.float64."""
    N = 7 if tier == "quick" else 14
    for n in range(1, N + 1):
        base = [{"cls": "SingleDisk", "move": False, "n": n, "passes": 2}, {"cls": "SingleDisk", "move": True, "n": n, "passes": 1},
                {"cls": "Multistage", "n": n, "ram": 1, "disk": 1, "traj": "maximum", "passes": 1},
                {"cls": "Multistage", "n": n, "ram": 2, "disk": 0, "traj": "revolve", "passes": 1},
                {"cls": "Mixed", "n": n, "s": 2, "storage": "RAM", "passes": 1},
                {"cls": "Mixed", "n": n, "s": 1, "storage": "DISK", "passes": 1},
                {"cls": "TwoLevel", "period": 3, "b": 1, "storage": "RAM", "traj": "maximum", "n": n, "passes": 2},
                {"cls": "TwoLevel", "period": 2, "b": 2, "storage": "DISK", "traj": "revolve", "n": n, "passes": 2},
                {"cls": "TwoLevel", "period": 2, "b": 1, "storage": "DISK", "traj": "maximum", "n": n, "passes": 1}]
        for c8 in ([8, 8, 16, 16], [8, 8, 16, 8], [8, 24, 16, 16], [16, 8, 0, 16], [8, 8, 8, 0], [24, 8, 40, 16]):
            base += [{"cls": "Revolve", "n": n, "s": 2, "c8": c8, "passes": 1},
                     {"cls": "DiskRevolve", "n": n, "s": 1, "c8": c8, "passes": 1},
                     {"cls": "PeriodicDiskRevolve", "n": n, "s": 1, "c8": c8, "passes": 1},
                     {"cls": "HRevolve", "n": n, "s": 1, "d": 2, "c8": c8, "passes": 1}]
        for c in base:
            for st in ("kw", "kwr", "pkr", "dflt") + (("ci", "npf") if "c8" in c else ()):
                yield dict(c, style=st)


def iter_driver_box(tier):
    """Every class driven the `for action in schedule` way: it = iter(schedule) first, observers read
    before the first action is requested, then next(it)."""
    for c in numpy_typed_box("quick"):
        if c["n"] in (1, 2, 3, 5, 8):
            c = dict(c)
            c.pop("np")
            c["iter"] = True
            yield c
            if c["cls"] in ("SingleMemory", "SingleDisk", "TwoLevel", "None") and c["n"] <= 3:
                yield dict(c, late=2)
            yield dict(c, iter="loops")
            d = dict(c, blind=True)
            d.pop("iter")
            yield d


def deep_repeat_probes(tier):
    """'Arbitrarily many' adjoint calculations: more passes than the default recursion limit
    (1000) on the three classes that permit unlimited repetition."""
    k = 1300 if tier == "quick" else 5000
    yield {"cls": "SingleMemory", "n": 2, "passes": k}
    yield {"cls": "SingleDisk", "move": False, "n": 2, "passes": k}
    yield {"cls": "TwoLevel", "period": 2, "b": 1, "storage": "RAM", "traj": "maximum", "n": 3, "passes": k}
    yield {"cls": "TwoLevel", "period": 3, "b": 0, "storage": "DISK", "traj": "revolve", "n": 4, "passes": k}


LARGE_N = (256, 257, 300, 600, 1000)


def large_n_probes(tier):
    """A few configs per class around CPython's small-int cache boundary (256/257) and beyond
    every n the pinned suite uses (250): identity-vs-equality slips, table sizes, recursion."""
    ns = LARGE_N if tier == "quick" else LARGE_N + (401, 512, 513, 2000)
    for n in ns:
        yield {"cls": "None", "n": n, "passes": 0}
        yield {"cls": "SingleMemory", "n": n, "passes": 2}
        yield {"cls": "SingleDisk", "move": True, "n": n, "passes": 1}
        yield {"cls": "SingleDisk", "move": False, "n": n, "passes": 2}
        for tr in ("maximum", "revolve"):
            yield {"cls": "Multistage", "n": n, "ram": 2, "disk": 1, "traj": tr, "passes": 1}
        yield {"cls": "Multistage", "n": n, "ram": 0, "disk": 6, "traj": "maximum", "passes": 1}
        yield {"cls": "Mixed", "n": n, "s": 3, "storage": "RAM", "passes": 1}
        yield {"cls": "TwoLevel", "period": 7, "b": 2, "storage": "RAM", "traj": "maximum", "n": n, "passes": 2}
        yield {"cls": "TwoLevel", "period": 16, "b": 3, "storage": "DISK", "traj": "revolve", "n": n, "passes": 1}
        yield {"cls": "Revolve", "n": n, "s": 3, "c8": [8, 8, 16, 16], "passes": 1}
        yield {"cls": "DiskRevolve", "n": n, "s": 2, "c8": [8, 16, 16, 8], "passes": 1}
        yield {"cls": "PeriodicDiskRevolve", "n": n, "s": 2, "c8": [8, 8, 16, 16], "passes": 1}
        yield {"cls": "HRevolve", "n": n, "s": 2, "d": 2, "c8": [8, 8, 16, 16], "passes": 1}
        # a single unit: the same checkpoint is re-read n-1 times (counters, repeated Copy)
        yield {"cls": "Revolve", "n": n, "s": 1, "c8": [8, 8, 16, 16], "passes": 1}
        yield {"cls": "HRevolve", "n": n, "s": 1, "d": 0, "c8": [8, 8, 16, 16], "passes": 1}
        yield {"cls": "DiskRevolve", "n": n, "s": 1, "c8": [8, 8, 8000, 8000], "passes": 1}
        yield {"cls": "Multistage", "n": n, "ram": 1, "disk": 0, "traj": "maximum", "passes": 1}
        yield {"cls": "Mixed", "n": n, "s": 1, "storage": "DISK", "passes": 1}
    yield from many_units_probes(tier)


def many_units_probes(tier):
    """Hundreds of checkpointing units (the pinned suite stops at 225): planners that recurse per
    unit, per-unit tables, unit counts beyond 255. Run cold, like the large-n probes."""
    yield {"cls": "Mixed", "n": 340, "s": 336, "storage": "RAM", "passes": 1}
    yield {"cls": "Mixed", "n": 455, "s": 450, "storage": "DISK", "passes": 1}
    yield {"cls": "Multistage", "n": 400, "ram": 200, "disk": 150, "traj": "maximum", "passes": 1}
    yield {"cls": "Multistage", "n": 400, "ram": 150, "disk": 200, "traj": "revolve", "passes": 1}
    yield {"cls": "Multistage", "n": 600, "ram": 0, "disk": 598, "traj": "maximum", "passes": 1}
    yield {"cls": "TwoLevel", "period": 400, "b": 380, "storage": "RAM", "traj": "maximum", "n": 401, "passes": 2}
    yield {"cls": "Revolve", "n": 260, "s": 257, "c8": [8, 8, 16, 16], "passes": 1}
    yield {"cls": "DiskRevolve", "n": 260, "s": 257, "c8": [8, 8, 16, 16], "passes": 1}
    yield {"cls": "HRevolve", "n": 260, "s": 200, "d": 57, "c8": [8, 8, 16, 16], "passes": 1}
    yield {"cls": "PeriodicDiskRevolve", "n": 150, "s": 140, "c8": [8, 8, 0, 0], "passes": 1}


# --------------------------------------------------------------------------
# Validity (documented domain), used by the shrinker and by C17
# --------------------------------------------------------------------------

def valid(cfg):
    c = cfg["cls"]
    n = cfg["n"]
    if n < 1:
        return False
    if c == "Multistage":
        return cfg["ram"] >= 0 and cfg["disk"] >= 0 and (n == 1 or cfg["ram"] + cfg["disk"] >= 1) \
            and cfg["traj"] in ("maximum", "revolve")
    if c == "Mixed":
        return cfg["s"] >= min(1, n - 1) and cfg["storage"] in ("RAM", "DISK")
    if c == "TwoLevel":
        return cfg["period"] >= 1 and cfg["b"] >= 0 and cfg["storage"] in ("RAM", "DISK")
    if c in REVOLVE_FAMILY:
        uf, ub, wd, rd = cfg.get("c8", DEFAULT_C8)
        ok = cfg["s"] >= 1 and uf > 0 and ub > 0 and wd >= 0 and rd >= 0
        if c == "HRevolve":
            ok = ok and cfg["d"] >= 0
        return ok
    return True


# --------------------------------------------------------------------------
# Deterministic coordinate-descent shrinker
# --------------------------------------------------------------------------

_INT_FIELDS = {"n": 1, "ram": 0, "disk": 0, "s": 0, "d": 0, "period": 1, "b": 0, "passes": 1, "late": 0}
_ENUM_FIELDS = {"traj": ["maximum", "revolve"], "storage": ["RAM", "DISK"], "move": [False, True]}


def _candidates(cfg):
    for f, lo in _INT_FIELDS.items():
        if f in cfg and isinstance(cfg[f], int) and cfg[f] > lo:
            v = cfg[f]
            for nv in sorted({lo, v // 2, (3 * v) // 4, v - 3, v - 2, v - 1}):
                if lo <= nv < v:
                    d = dict(cfg)
                    d[f] = nv
                    yield d
    for f, vals in _ENUM_FIELDS.items():
        if f in cfg and cfg[f] != vals[0]:
            d = dict(cfg)
            d[f] = vals[0]
            yield d
    if "c8" in cfg and cfg["c8"] != DEFAULT_C8:
        d = dict(cfg)
        d["c8"] = list(DEFAULT_C8)
        yield d
        for i in range(4):
            if cfg["c8"][i] != DEFAULT_C8[i]:
                d = dict(cfg)
                d["c8"] = list(cfg["c8"])
                d["c8"][i] = DEFAULT_C8[i]
                yield d
        for i in range(4):
            lo = 1 if i < 2 else 0
            v = cfg["c8"][i]
            for nv in sorted({lo, v // 2, v - 1, 8 * (v // 8)}):
                if lo <= nv < v:
                    d = dict(cfg)
                    d["c8"] = list(cfg["c8"])
                    d["c8"][i] = nv
                    yield d
    for flag in ("numba", "style", "np", "iter", "blind"):
        if cfg.get(flag):
            d = dict(cfg)
            d.pop(flag)
            yield d


SHRINK_WALL_S = 150


def shrink(cfg, still_fails, budget=400, is_valid=valid):
    """Greedy descent: accept any smaller valid config that still fails. Bounded by a number of
    evaluations and by wall-clock time (the time bound only limits how small the witness gets, never
    the verdict; on a tree where candidates hang it keeps the run finite)."""
    import time
    t_end = time.time() + SHRINK_WALL_S
    cur = dict(cfg)
    tried = 0
    improved = True
    while improved and tried < budget and time.time() < t_end:
        improved = False
        for cand in _candidates(cur):
            if not is_valid(cand):
                continue
            if cand.get("cls") == "SingleDisk" and cand.get("move") and cand.get("passes", 1) != 1:
                continue
            tried += 1
            try:
                bad = still_fails(cand)
            except Exception:
                bad = False
            if bad:
                cur = cand
                improved = True
                break
            if tried >= budget or time.time() >= t_end:
                break
    return cur

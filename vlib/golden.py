"""Golden streams for C15: the stream of a config as produced in a FRESH
interpreter that has only imported the library.

Server mode (default): read one JSON config per line on stdin; for each,
fork() a pristine child (the parent never builds a schedule), let the child
produce the stream, write one JSON line {"n": len, "stream": [...]} to stdout.
`--one`: read a single config from stdin, answer once, exit (replay path).
"""
import json
import os
import sys


class StreamRunner:
    """Drives one schedule object the way every documented driver does:
    finalises an online schedule as soon as a Forward reaches the true step
    count (cfg["late"] = k: only after k FURTHER Forward actions have been requested - a driver
    that learns late that the calculation has ended; permitted by C10); stops at StopIteration, or after the requested number of adjoint
    calculations for classes that permit unlimited ones."""

    def __init__(self, cfg, sched=None):
        from . import lib, configs as C
        self.lib = lib
        self.cfg = cfg
        self.sched = sched if sched is not None else lib.quiet(C.build, cfg)
        self.permitted = C.permitted_passes(cfg)
        self.want = cfg.get("passes", 1)
        self.n = cfg["n"]
        self.finalized = self.sched.max_n is not None
        self.done = False
        self.stream = []
        self.er = 0
        self.late = cfg.get("late", 0)
        self.late_seen = 0

    def step(self):
        """Advance by one action; returns the normalised action or None when done."""
        if self.done:
            return None
        lib = self.lib
        try:
            a = lib.quiet(next, self.sched)
        except StopIteration:
            self.done = True
            self.stream.append(("STOP",))
            return None
        except Exception as e:
            self.done = True
            self.stream.append(("RAISE", type(e).__name__))
            return None
        t = lib.norm(a)
        self.stream.append(t)
        if t[0] == "F" and not self.finalized and t[1] >= self.n:
            self.late_seen += 1
        if t[0] == "F" and not self.finalized and t[2] >= self.n and self.late_seen >= self.late:
            try:
                lib.quiet(self.sched.finalize, self.n)
            except Exception as e:
                self.stream.append(("FINALIZE-RAISE", type(e).__name__))
                self.done = True
                return t
            self.finalized = True
        if t[0] == "ER":
            self.er += 1
            if self.permitted is None and self.er >= self.want:
                self.done = True
        if len(self.stream) > 40 * self.n * self.n * max(1, self.want) + 2000:
            self.done = True
            self.stream.append(("CAP",))
        return t


def produce(cfg):
    r = StreamRunner(cfg)
    while not r.done:
        r.step()
    return [list(t) for t in r.stream]


def _answer(cfg):
    try:
        st = produce(cfg)
        return {"n": len(st), "stream": st}
    except Exception as e:
        return {"error": "%s: %s" % (type(e).__name__, e)}


def main(argv):
    from . import lib  # noqa: F401  (import the library, nothing else)
    if "--one" in argv:
        cfg = json.loads(sys.stdin.read())
        sys.stdout.write(json.dumps(_answer(cfg)) + "\n")
        return 0
    out = sys.stdout
    for line in sys.stdin:
        line = line.strip()
        if not line:
            continue
        cfg = json.loads(line)
        r, w = os.pipe()
        pid = os.fork()
        if pid == 0:
            os.close(r)
            try:
                data = json.dumps(_answer(cfg)).encode()
            except BaseException as e:  # noqa
                data = json.dumps({"error": repr(e)}).encode()
            with os.fdopen(w, "wb") as f:
                f.write(data)
            os._exit(0)
        os.close(w)
        with os.fdopen(r, "rb") as f:
            data = f.read()
        os.waitpid(pid, 0)
        out.write(data.decode() + "\n")
        out.flush()
    return 0


if __name__ == "__main__":
    sys.exit(main(sys.argv[1:]))

"""Reference executor ("a solver that carries the stream out literally") and
per-property prefix predicates (DESIGN 2.2).

Semantics follow the maintainers' executor in tests/test_validity.py, made
total (all storages, all passes, online finalisation) and turned from asserts
into a violation log tagged by property id. The monitor never applies ==, `in`
or hashing to library action objects; it works on normalised tuples.
"""
import gc
import hashlib
import signal
import sys
import time

from . import configs as C
from . import lib
from .lib import ST, LibError, quiet, norm, fmt, wellformed

CASE_TIMEOUT_S = 120


def case_timeout():
    """Per-case wall-clock guard in seconds (a hit means 'inconclusive', never a violation). The
    runner re-runs an inconclusive case once, alone, with VERIF_CASE_S raised (transient load)."""
    import os
    t = int(os.environ.get("VERIF_CASE_S", CASE_TIMEOUT_S))
    dl = os.environ.get("VERIF_DEADLINE")       # set for a re-run: all cases of the re-run item share it
    if dl:
        t = max(1, min(t, int(float(dl) - time.time())))
    return t


class CaseTimeout(Exception):
    pass


def _alarm(signum, frame):
    raise CaseTimeout()


class Result(dict):
    """Plain dict (picklable); keys documented in execute()."""


def action_cap(n):
    return 40 * n * n + 1000


class Monitor:
    def __init__(self, cfg, sched):
        self.cfg = cfg
        self.sched = sched
        self.cls = cfg["cls"]
        self.n = cfg["n"]
        self.viol = []            # (prop, predicate, detail)
        self.trace = []           # normalised actions
        self.fwd = 0              # forward state position in WORK (None = undefined)
        self.r = 0
        self.w_ics = []           # list of ranges loaded into WORK, not yet consumed
        self.w_adj = set()
        self.store = {"RAM": {}, "DISK": {}}   # step -> (ics_range, adj_range)
        self.phase = "forward"
        self.pass_idx = 0         # adjoint pass currently being executed (1-based after EndForward)
        # "blind" driver: never reads an observer (a property getter that does bookkeeping the stream
        # relies on would be masked by an executor that reads everything after every action)
        self.blind = bool(cfg.get("blind"))
        self.finalized = (sched.max_n is not None) if not self.blind else (not C.is_online(cfg))
        self.end_forward_seen = 0
        self.snap_at_endforward = None
        self.ever_written = {"RAM": set(), "DISK": set()}
        self.budget = C.budgets(cfg)
        self.permitted = C.permitted_passes(cfg)
        self.peak = {"RAM": 0, "DISK": 0}
        self.fsteps = 0
        self.dwrites = 0
        self.dreads = 0
        self.ramwrites = 0
        self.loads = 0
        self.recompute_fwd = 0     # Forward actions after EndForward
        self.recompute_between_reverses = False
        self._seen_reverse_in_pass = False
        self.touched = {"RAM": False, "DISK": False}
        self.disk_read_count = {}
        self.copy_from_disk_restart = 0
        self.segments = []         # per pass list of tuples
        self._seg = []
        self.adj_ckpt_written = 0
        self.ics_ckpt_written = 0
        self.fin_inside_multistep = False
        self.multi_step_emitted = 0
        self.final_emitted = False
        self.c02_pos = 0           # forward-sweep position for the C02 automaton
        self.c02_r = 0
        self.usage_reports = {}
        # late finalisation: the driver draws `late` further Forward actions after the forward was
        # told to reach n, does not execute them (the calculation has ended), and only then calls finalize(n)
        self.late_left = int(cfg.get("late", 0)) if C.is_online(cfg) else 0
        self.in_late_window = False
        self.fin_arg = cfg["n"]
        if cfg.get("np"):
            import numpy as np
            self.fin_arg = np.int64(cfg["n"])

    # -- helpers ----------------------------------------------------------
    def v(self, prop, pred, detail):
        if len(self.viol) < 200:
            self.viol.append((prop, pred, "action #%d %s" % (len(self.trace), detail)))
        if self.pass_idx >= 2 and prop in ("C01",):
            # a repeat pass that is not executable is also a C09 matter
            if len(self.viol) < 200:
                self.viol.append(("C09", "repeat-not-executable", "pass %d: %s" % (self.pass_idx, detail)))

    def adj_pos(self):
        return self.n - self.r

    # -- observers --------------------------------------------------------
    def _get(self, name):
        try:
            return True, getattr(self.sched, name)
        except Exception as e:
            return False, e

    def check_observers(self, before_first=False, after_stop=False):
        if self.blind:
            return
        s = self.sched
        # C08
        ok, n_ = self._get("n")
        ok2, r_ = self._get("r")
        ok3, m_ = self._get("max_n")
        if not (ok and ok2 and ok3):
            self.v("C08", "observer-raises", "n/r/max_n raised")
        else:
            if self.fwd is not None and n_ != self.fwd and not (self.in_late_window and not self.finalized):
                self.v("C08", "n-wrong", "schedule.n=%r but forward state stands at %r" % (n_, self.fwd))
            if r_ != self.r_expected():
                self.v("C08", "r-wrong", "schedule.r=%r but %r steps reversed in this pass" % (r_, self.r_expected()))
            if m_ is None:
                if self.finalized:
                    self.v("C08", "max_n-wrong", "max_n None after finalisation")
                elif not C.is_online(self.cfg):
                    self.v("C08", "max_n-wrong", "max_n None on offline schedule")
            elif m_ != self.n:
                self.v("C08", "max_n-wrong", "max_n=%r, true number of steps %r" % (m_, self.n))
        # C09 flags
        ok, run = self._get("is_running")
        if not ok:
            self.v("C09", "is_running-raises", repr(run))
        elif bool(run) != (not before_first):
            self.v("C09", "is_running-wrong", "is_running=%r %s" % (run, "before first next()" if before_first else "after an action was requested"))
        ok, exh = self._get("is_exhausted")
        if not ok:
            self.v("C09", "is_exhausted-raises", repr(exh))
        else:
            want = self.final_emitted
            if bool(exh) != want:
                self.v("C09", "is_exhausted-wrong", "is_exhausted=%r, expected %r (%s)" % (
                    exh, want, "final action emitted" if want else "actions remain / further passes permitted"))

    def r_expected(self):
        return self._r_report

    def check_usage(self, when):
        """C11: query all four storage types; never raises; no under-report."""
        if self.blind:
            return
        for st in (ST.RAM, ST.DISK, ST.WORK, ST.NONE):
            try:
                u = self.sched.uses_storage_type(st)
            except Exception as e:
                self.v("C11", "uses_storage_type-raises", "uses_storage_type(%s) %s raised %s: %s" % (st.name, when, type(e).__name__, e))
                continue
            self.usage_reports[st.name] = bool(u)
            if st.name in ("RAM", "DISK") and self.touched[st.name] and not u:
                self.v("C11", "under-report", "stream touches %s but uses_storage_type(%s) is %r %s" % (st.name, st.name, u, when))

    # -- transitions ------------------------------------------------------
    def on_action(self, a):
        """Process one raw library action."""
        probs = wellformed(a)
        for p in probs:
            self.v("C18", "malformed-action", p)
        t = norm(a)   # ValueError propagates to execute()
        self.trace.append(t)
        if self.phase != "forward":
            self._seg.append(t)
        k = t[0]
        was_finalized = self.finalized
        if self.final_emitted:
            self.v("C02", "action-after-end", "%s emitted after the last permitted calculation concluded" % fmt(t))
            self.v("C09", "action-after-end", "%s emitted after the schedule concluded" % fmt(t))
        if k == "F":
            self._forward(t, was_finalized)
        elif k == "R":
            self._reverse(t)
        elif k in ("C", "M"):
            self._transfer(t)
        elif k == "EF":
            self._end_forward(t)
        elif k == "ER":
            self._end_reverse(t)
        for stn in ("RAM", "DISK"):
            occ = len(self.store[stn])
            if occ > self.peak[stn]:
                self.peak[stn] = occ
            b = self.budget[0 if stn == "RAM" else 1]
            if b is not None and occ > b:
                self.v("C03", "budget-exceeded:" + stn, "%d checkpoints in %s, budget %d (keys %s)" % (
                    occ, stn, b, sorted(self.store[stn])[:8]))
        if self.cls != "SingleMemory" and len(self.w_adj) > 1:
            self.v("C12", "work-holds-many-adj", "working storage holds adjoint data of %d steps" % len(self.w_adj))
        self.check_observers()
        if len(self.trace) % 7 == 0:
            self.check_usage("during iteration")

    def _forward(self, t, was_finalized):
        _, n0, n1, wi, wa, st = t
        n = self.n
        if not self.finalized and n0 >= n:
            # requested beyond the true end while not yet finalised: not executed, nothing stored
            if self.phase != "forward":
                self.v("C02", "forward-sweep-overrun", "%s after EndForward without finalisation" % fmt(t))
            if self.late_left > 0:
                self.late_left -= 1
                return
            try:
                quiet(self.sched.finalize, self.fin_arg)
            except Exception as e:
                raise LibError("finalize(%d)" % n, e)
            self.finalized = True
            self.in_late_window = False
            return
        # C02 automaton: forward sweep
        if self.phase == "forward":
            if n0 != self.c02_pos:
                self.v("C02", "forward-sweep-gap", "Forward starts at %d, sweep stands at %d" % (n0, self.c02_pos))
            if self.c02_pos >= n:
                self.v("C02", "forward-sweep-overrun", "Forward after all %d steps were advanced" % n)
            self.c02_pos = min(n1, n)
        else:
            self.recompute_fwd += 1
            if self._seen_reverse_in_pass:
                self.recompute_between_reverses = True
        # C01
        if self.fwd is None or n0 != self.fwd:
            self.v("C01", "forward-start", "%s but forward state stands at %r" % (fmt(t), self.fwd))
        # C12 overshoot
        if was_finalized and n1 > self.adj_pos():
            self.v("C12", "forward-overshoot", "%s advances beyond adjoint position %d" % (fmt(t), self.adj_pos()))
        n1t = min(n1, n)
        if n1t <= n0:
            n1t = n0  # degenerate; flagged elsewhere
        if n1 - n0 > 1:
            self.multi_step_emitted += 1
        self.fsteps += n1t - n0
        self.fwd = n1t
        self.w_ics = []
        self.w_adj = set()
        ics = range(n0, n1t) if wi else range(0)
        adj = range(n0, n1t) if wa else range(0)
        if st in ("RAM", "DISK"):
            self.touched[st] = True
            # C03 purity
            if wi == wa:
                self.v("C03", "checkpoint-kind", "%s stores %s in one checkpoint" % (fmt(t), "both kinds" if wi else "nothing"))
            elif wa and n1 - n0 != 1:
                self.v("C03", "checkpoint-kind", "%s stores adjoint data of %d steps in one checkpoint" % (fmt(t), n1 - n0))
            if n0 in self.store[st]:
                self.v("C01", "overwrite", "%s writes over existing %s checkpoint %d" % (fmt(t), st, n0))
            self.store[st][n0] = (ics, adj)
            self.ever_written[st].add(n0)
            if wi:
                self.ics_ckpt_written += 1
            if wa:
                self.adj_ckpt_written += 1
            if st == "DISK":
                self.dwrites += 1
            else:
                self.ramwrites += 1
        elif st == "WORK":
            if wi:
                self.w_ics.append(ics)
            if wa:
                self.w_adj.update(adj)
                if self.cls != "SingleMemory":
                    if n1 - n0 != 1 or n0 != self.adj_pos() - 1:
                        self.v("C12", "adj-deps-placement", "%s writes adjoint data to WORK, adjoint position %d" % (fmt(t), self.adj_pos()))
        # online finalisation, as every documented driver does it
        if not self.finalized and n1 >= n and self.late_left > 0:
            self.late_left -= 1
            self.in_late_window = True
            if n1 - n0 > 1 and n1 > n:
                self.fin_inside_multistep = True
        elif not self.finalized and n1 >= n:
            if n1 - n0 > 1 and n1 > n:
                self.fin_inside_multistep = True
            try:
                quiet(self.sched.finalize, self.fin_arg)
            except Exception as e:
                raise LibError("finalize(%d)" % n, e)
            self.finalized = True
            self.in_late_window = False

    def _reverse(self, t):
        _, n1, n0, clear = t
        if self.phase == "forward":
            self.v("C02", "reverse-before-endforward", fmt(t))
        # C02 tiling
        if n1 != self.n - self.c02_r:
            self.v("C02", "reverse-order", "%s but adjoint stands at %d" % (fmt(t), self.n - self.c02_r))
        if n0 < 0 or n0 >= n1:
            self.v("C02", "reverse-order", "%s is empty or negative" % fmt(t))
        self.c02_r += max(n1 - n0, 0)
        if self.c02_r > self.n:
            self.v("C02", "reverse-overrun", "%d steps reversed in one calculation of %d" % (self.c02_r, self.n))
        # C01 data availability
        missing = [i for i in range(max(n0, 0), n1) if i not in self.w_adj][:4]
        if missing:
            self.v("C01", "reverse-missing-deps", "%s lacks adjoint data of steps %s in WORK" % (fmt(t), missing))
        self.r += max(n1 - n0, 0)
        self._r_report = self.r
        if clear:
            self.w_adj = set()
        self._seen_reverse_in_pass = True

    def _transfer(self, t):
        k, n, src, dst = t
        name = fmt(t)
        if self.phase == "forward":
            self.v("C02", "transfer-before-endforward", name)
        if dst == "WORK" and (self.w_ics or self.w_adj):
            self.v("C12", "load-into-nonempty-work", "%s while WORK holds %s" % (
                name, "restart data" if self.w_ics else "adjoint data of %s" % sorted(self.w_adj)[:3]))
        if src in ("RAM", "DISK"):
            self.touched[src] = True
        if dst in ("RAM", "DISK"):
            self.touched[dst] = True
        if src not in ("RAM", "DISK") or n not in self.store[src]:
            self.v("C01", "missing-checkpoint", "%s but %s holds %s" % (name, src, sorted(self.store.get(src, {}))[:8]))
            if dst == "WORK":
                self.fwd = n          # post-state the action describes
                self.w_ics = [range(n, self.adj_pos())]
            return
        cp = self.store[src][n]
        if k == "M":
            del self.store[src][n]
        if src == "DISK":
            self.dreads += 1
            self.disk_read_count[n] = self.disk_read_count.get(n, 0) + 1
            if k == "C" and len(cp[0]) > 0:
                self.copy_from_disk_restart += 1
        if len(cp[0]) == 0 and len(cp[1]) == 0:
            self.v("C01", "empty-checkpoint", "%s names a checkpoint holding no data" % name)
        if not (n < self.adj_pos()):
            self.v("C01", "checkpoint-not-before-adjoint", "%s at/after adjoint position %d" % (name, self.adj_pos()))
        if dst in ("RAM", "DISK"):
            if n in self.store[dst]:
                self.v("C01", "overwrite", "%s writes over existing %s checkpoint" % (name, dst))
            self.store[dst][n] = cp
            self.ever_written[dst].add(n)
        elif dst == "WORK":
            self.loads += 1
            ics, adj = cp
            if n in ics:
                self.fwd = n
                if not (ics.start <= n and ics.stop >= self.adj_pos()):
                    self.v("C01", "restart-cover", "%s restart data covers [%d,%d), needs up to %d" % (
                        name, ics.start, ics.stop, self.adj_pos()))
            else:
                self.fwd = None
            if len(ics):
                self.w_ics.append(ics)
            self.w_adj.update(adj)
        # dst NONE: pure delete (Move) / no-op (Copy)

    def _end_forward(self, t):
        self.end_forward_seen += 1
        if self.end_forward_seen > 1:
            self.v("C02", "endforward-twice", "EndForward emitted %d times" % self.end_forward_seen)
        if self.phase != "forward":
            self.v("C02", "endforward-late", "EndForward during an adjoint calculation")
        if self.c02_pos != self.n:
            self.v("C02", "endforward-early", "EndForward with forward sweep at %d of %d" % (self.c02_pos, self.n))
        if self.fwd != self.n:
            self.v("C01", "endforward-state", "EndForward but forward state stands at %r" % (self.fwd,))
        self.phase = "reverse"
        self.pass_idx = 1
        self._seg = []
        self.snap_at_endforward = {k: frozenset(v) for k, v in self.store.items()}
        if self.permitted == 0:
            self.final_emitted = True

    def _end_reverse(self, t):
        if self.phase == "forward":
            self.v("C02", "endreverse-before-endforward", "EndReverse in forward sweep")
        if self.c02_r != self.n:
            self.v("C02", "endreverse-early", "EndReverse after %d of %d steps reversed" % (self.c02_r, self.n))
        # C04
        cur = {k: frozenset(v) for k, v in self.store.items()}
        if self.permitted == 1:
            for stn in ("RAM", "DISK"):
                if cur[stn]:
                    self.v("C04", "leftover-checkpoint:" + stn, "%s still holds checkpoints %s at EndReverse" % (stn, sorted(cur[stn])[:8]))
        elif self.snap_at_endforward is not None:
            for stn in ("RAM", "DISK"):
                if cur[stn] != self.snap_at_endforward[stn]:
                    extra = sorted(cur[stn] - self.snap_at_endforward[stn])[:6]
                    lost = sorted(self.snap_at_endforward[stn] - cur[stn])[:6]
                    self.v("C04", "pass-changes-storage:" + stn, "pass %d: %s differs from EndForward: extra %s, lost %s" % (
                        self.pass_idx, stn, extra, lost))
        # C09 repeat
        self.segments.append(self._seg)
        if len(self.segments) >= 2 and self.segments[-1] != self.segments[0]:
            a, b = self.segments[0], self.segments[-1]
            i = next((j for j in range(min(len(a), len(b))) if a[j] != b[j]), min(len(a), len(b)))
            self.v("C09", "pass-differs", "pass %d differs from pass 1 at action %d: %s vs %s" % (
                len(self.segments), i, fmt(b[i]) if i < len(b) else "<end>", fmt(a[i]) if i < len(a) else "<end>"))
        self._seg = []
        another = self.permitted is None or self.pass_idx < self.permitted
        if another:
            self.r = 0
            self.c02_r = 0
            self._r_report = 0
            self.pass_idx += 1
            self._seen_reverse_in_pass = False
        else:
            self._r_report = self.r     # stays at n: no further calculation
            self.final_emitted = True

    _r_report = 0


def execute(cfg, extra_next=3, want_trace=False, action_hook=None):
    """Build the schedule for `cfg`, carry its stream out literally, return a
    picklable result dict:
      viol: [(prop, predicate, detail)], status: ok|construct-raised|inconclusive,
      metrics and classification flags used by the property modules."""
    t0 = time.time()
    res = Result(cfg=cfg, viol=[], status="ok")
    old = signal.signal(signal.SIGALRM, _alarm)
    signal.alarm(case_timeout())
    mon = None
    try:
        numba_forced = bool(cfg.get("numba"))
        if numba_forced:
            lib.cs_mixed.numba = object()
        try:
            try:
                sched = quiet(C.build, cfg)
            except CaseTimeout:
                raise
            except Exception as e:
                res["status"] = "construct-raised"
                res["viol"].append(("C17", "valid-config-raises:construct", "%s raised %s: %s" % (C.describe(cfg), type(e).__name__, e)))
                return res
            mon = Monitor(cfg, sched)
            mon.check_observers(before_first=True)
            mon.check_usage("before the first next()")
            src = sched
            if cfg.get("iter"):
                # driver style `it = iter(schedule)` / `for action in schedule` / enumerate(schedule):
                # obtaining the iterator requests no action yet
                try:
                    src = quiet(iter, sched)
                except CaseTimeout:
                    raise
                except Exception as e:
                    mon.v("C17", "valid-config-raises:iter", "iter(schedule) raised %s: %s" % (type(e).__name__, e))
                    src = sched
                mon.check_observers(before_first=True)
                mon.check_usage("after iter(schedule), before the first next()")
            requested = cfg.get("passes", 1)
            cap = action_cap(cfg["n"]) * max(1, requested)
            stops = 0
            while True:
                try:
                    a = quiet(next, src)
                except StopIteration:
                    stops += 1
                    if not mon.final_emitted:
                        mon.v("C02", "premature-stop", "StopIteration before the stream was complete (phase %s, %d/%d reversed)" % (mon.phase, mon.r, mon.n))
                        mon.v("C09", "premature-stop", "StopIteration although a calculation is outstanding")
                        mon.v("C17", "valid-config-incomplete", "stream stops early")
                        break
                    # after the end: exhaustion must hold and keep holding, is_running stays True,
                    # n / r / max_n keep reporting where the execution stands
                    ok, exh = mon._get("is_exhausted") if not mon.blind else (True, True)
                    if ok and not exh:
                        mon.v("C09", "is_exhausted-wrong", "is_exhausted False after StopIteration")
                    mon.check_observers()
                    if stops >= extra_next:
                        break
                    if cfg.get("iter") == "loops":
                        # a further `for action in schedule:` loop over a schedule that has concluded
                        # must yield nothing: the iterator is obtained anew after every StopIteration
                        src = None
                        gc.collect()
                        try:
                            src = quiet(iter, sched)
                        except CaseTimeout:
                            raise
                        except Exception as e:
                            mon.v("C17", "valid-config-raises:iter", "iter(schedule) raised %s: %s" % (type(e).__name__, e))
                            src = sched
                    continue
                except CaseTimeout:
                    raise
                except Exception as e:
                    first = (len(mon.trace) == 0)
                    mon.v("C17", "valid-config-raises:" + ("first-next" if first else "mid-stream"), "%s: %s" % (type(e).__name__, e))
                    mon.v("C02", "stream-raises", "%s: %s" % (type(e).__name__, e))
                    mon.v("C01", "stream-raises", "%s: %s" % (type(e).__name__, e))
                    if mon.phase != "forward" and (mon.permitted is None or mon.pass_idx >= 2):
                        mon.v("C09", "repeat-raises", "adjoint calculation %d of a class that permits %s raised %s: %s" % (
                            mon.pass_idx, "arbitrarily many" if mon.permitted is None else mon.permitted, type(e).__name__, str(e)[:80]))
                    res["lib_exc"] = "%s: %s" % (type(e).__name__, e)
                    break
                if stops:
                    mon.v("C09", "resumes-after-stop", "action after StopIteration")
                if cfg.get("iter") == "loops" and type(a).__name__ in ("EndForward", "EndReverse"):
                    # driver style of the class docstrings: one `for action in schedule:` loop per phase,
                    # left with `break` at EndForward / EndReverse; the next phase starts a new loop.
                    # The abandoned iterator is dropped (and collected) before the next one is obtained.
                    src = None
                    gc.collect()
                    try:
                        src = quiet(iter, sched)
                    except CaseTimeout:
                        raise
                    except Exception as e:
                        mon.v("C17", "valid-config-raises:iter", "iter(schedule) raised %s: %s" % (type(e).__name__, e))
                        src = sched
                try:
                    if action_hook is not None:
                        for pred, detail in action_hook(a):
                            mon.v("C18", pred, detail)
                    mon.on_action(a)
                except LibError as e:
                    mon.v("C10", "finalize-rejected", str(e))
                    mon.v("C17", "valid-config-raises:finalize", str(e))
                    res["lib_exc"] = str(e)
                    break
                except ValueError as e:
                    mon.v("C18", "malformed-action", str(e))
                    mon.v("C01", "stream-raises", "unexecutable action: %s" % e)
                    break
                if len(mon.trace) > cap:
                    mon.v("C02", "nonterminating", "more than %d actions for n=%d" % (cap, cfg["n"]))
                    mon.v("C17", "valid-config-incomplete", "action cap hit")
                    break
                if mon.final_emitted:
                    continue   # drive past the end: expect StopIteration x extra_next
                if mon.permitted is None and len(mon.segments) >= requested:
                    break      # unlimited class: requested passes done
            mon.check_usage("at the end")
        finally:
            if numba_forced:
                lib.cs_mixed.numba = None
    except CaseTimeout:
        res["status"] = "inconclusive"
        res["viol"] = []
        return res
    finally:
        signal.alarm(0)
        signal.signal(signal.SIGALRM, old)
    if mon is not None:
        res["viol"] = mon.viol
        tr = mon.trace
        res.update(
            actions=len(tr), fsteps=mon.fsteps, dwrites=mon.dwrites, dreads=mon.dreads, ramwrites=mon.ramwrites,
            loads=mon.loads, peak=dict(mon.peak), passes_done=len(mon.segments), completed=mon.final_emitted or (
                mon.permitted is None and len(mon.segments) >= cfg.get("passes", 1)),
            recompute_fwd=mon.recompute_fwd, recompute_between_reverses=mon.recompute_between_reverses,
            touched=dict(mon.touched), usage=dict(mon.usage_reports),
            max_disk_reads=max(mon.disk_read_count.values()) if mon.disk_read_count else 0,
            copy_from_disk_restart=mon.copy_from_disk_restart,
            adj_ckpt=mon.adj_ckpt_written, ics_ckpt=mon.ics_ckpt_written,
            fin_inside_multistep=mon.fin_inside_multistep, multi_step=mon.multi_step_emitted,
            digest=hashlib.sha1(repr(tr).encode()).hexdigest()[:16],
            head=[fmt(t) for t in tr[:12]],
        )
        if want_trace:
            res["trace"] = tr
    res["wall"] = time.time() - t0
    return res

"""Pristine fork server: python -m vlib.forkserver

A fresh interpreter that has only imported the library; for every request line
{"func": "pkg.mod.fn", "payload": ...} it fork()s a child, the child runs
fn(payload) and the JSON result is written back as one line. The parent never
executes library code itself, so every request runs from the same pristine
process state: an ordered sequence of schedule constructions/iterations is a
pure function of the request and replays identically.
"""
import importlib
import json
import os
import sys
import traceback


def main():
    from . import lib  # noqa: F401
    for line in sys.stdin:
        line = line.strip()
        if not line:
            continue
        req = json.loads(line)
        r, w = os.pipe()
        pid = os.fork()
        if pid == 0:
            os.close(r)
            try:
                if req.get("case_s"):
                    os.environ["VERIF_CASE_S"] = str(req["case_s"])
                if req.get("deadline"):
                    os.environ["VERIF_DEADLINE"] = str(req["deadline"])
                mod, fn = req["func"].rsplit(".", 1)
                res = {"ok": getattr(importlib.import_module(mod), fn)(req["payload"])}
                data = json.dumps(res, default=str).encode()
            except BaseException:
                data = json.dumps({"error": traceback.format_exc()}).encode()
            with os.fdopen(w, "wb") as f:
                f.write(data)
            os._exit(0)
        os.close(w)
        with os.fdopen(r, "rb") as f:
            data = f.read()
        os.waitpid(pid, 0)
        sys.stdout.write(data.decode() + "\n")
        sys.stdout.flush()


class Client:
    def __init__(self):
        import subprocess
        from . import runner as R
        env = dict(os.environ)
        env["PYTHONPATH"] = R.VERIF + os.pathsep + env.get("PYTHONPATH", "")
        self.p = subprocess.Popen([sys.executable, "-m", "vlib.forkserver"], stdin=subprocess.PIPE, stdout=subprocess.PIPE,
                                  cwd=R.VERIF, env=env, text=True, bufsize=1)

    def call(self, func, payload):
        self.p.stdin.write(json.dumps({"func": func, "payload": payload, "case_s": os.environ.get("VERIF_CASE_S"), "deadline": os.environ.get("VERIF_DEADLINE")}) + "\n")
        self.p.stdin.flush()
        line = self.p.stdout.readline()
        if not line:
            raise RuntimeError("fork server died")
        ans = json.loads(line)
        if "error" in ans:
            raise RuntimeError("fork server child failed:\n" + ans["error"])
        return ans["ok"]

    def close(self):
        try:
            self.p.stdin.close()
            self.p.wait(timeout=10)
        except Exception:
            self.p.kill()


_CLIENT = [None]


def client():
    """One fork server per (worker) process, started lazily."""
    if _CLIENT[0] is None or _CLIENT[0].p.poll() is not None:
        _CLIENT[0] = Client()
    return _CLIENT[0]


if __name__ == "__main__":
    main()

"""C17 - valid parameters always yield a complete stream; invalid ones fail
before any action is emitted.

The harness computes membership in the documented domain itself (DESIGN 2.1,
statement of C17) and probes every tuple of an exhaustive box that includes
the invalid region (max_n < 1, period < 1, no unit for max_n > 1, storage
WORK/NONE), plus Hypothesis-generated valid tuples up to n = 160/400."""
import signal

from .. import configs as C
from .. import runner as R

RULE = ("cases = constructor tuples: exhaustive box max_n in -1..N, unit counts 0..max_n+2, all four StorageType members where a storage is accepted, period in -1..4, "
        "plus generated valid tuples; valid => complete stream (C02 completeness), invalid => exception at construction or first next(); "
        "non-trivial = max_n == 1, or units >= max_n, or an invalid tuple; distinct = distinct tuple")

STORAGES = ("RAM", "DISK", "WORK", "NONE")


def domain(t):
    """'valid' | 'invalid' | 'either' (not pinned down by the documentation)."""
    c = t["cls"]
    n = t["n"]
    if c == "Multistage":
        if n < 1 or (n > 1 and t["ram"] + t["disk"] < 1):
            return "invalid"
        return "valid"
    if c == "Mixed":
        if n < 1 or t["storage"] not in ("RAM", "DISK") or t["s"] < min(1, n - 1):
            return "invalid"
        return "valid"
    if c == "TwoLevel":
        if t["period"] < 1 or t["storage"] not in ("RAM", "DISK"):
            return "invalid"
        return "valid"
    if c in C.REVOLVE_FAMILY:
        if n < 1:
            return "invalid"
        if t["s"] < 1:
            # statement: a RAM unit is required when max_n > 1; the class docstring requires one always
            return "invalid" if n > 1 else "either"
        return "valid"
    return "valid"


class _TO(Exception):
    pass


def _to(sig, frm):
    raise _TO()


def _probe(t):
    from .. import monitor, lib
    dom = domain(t)
    out = {"t": t, "dom": dom, "viol": [], "status": "ok", "outcome": None}
    if dom == "valid":
        r = monitor.execute(t)
        if r["status"] == "inconclusive":
            out["status"] = "inconclusive"
            return out
        bad = [v for v in r["viol"] if v[0] in ("C17", "C02")]
        if bad:
            out["viol"].append(("valid-tuple-fails", "%s: %s %s" % (C.describe(t), bad[0][1], bad[0][2])))
        elif not r.get("completed"):
            out["viol"].append(("valid-tuple-fails", "%s: stream not complete" % C.describe(t)))
        out["outcome"] = "complete" if not out["viol"] else "fails"
        out["digest"] = r.get("digest")
        out["actions"] = r.get("actions")
        return out
    old = signal.signal(signal.SIGALRM, _to)
    signal.alarm(monitor.case_timeout())
    try:
        try:
            s = lib.quiet(C.build, t)
        except _TO:
            raise
        except Exception as e:
            out["outcome"] = "raises at construction: %s" % type(e).__name__
            return out
        try:
            a = lib.quiet(next, s)
        except _TO:
            raise
        except StopIteration:
            out["outcome"] = "empty stream"
            if dom == "invalid":
                out["viol"].append(("invalid-tuple-silent", "%s: no exception, empty stream" % C.describe(t)))
            return out
        except Exception as e:
            out["outcome"] = "raises at first next(): %s" % type(e).__name__
            return out
        out["outcome"] = "emits %s" % type(a).__name__
        if dom == "invalid":
            out["viol"].append(("invalid-tuple-emits-action", "%s is outside the documented domain but emitted %r" % (C.describe(t), a)))
        else:  # 'either': if it produces a stream, the stream must be complete
            signal.alarm(0)
            r = monitor.execute(t)
            bad = [v for v in r["viol"] if v[0] in ("C17", "C02")]
            if r["status"] == "ok" and (bad or not r.get("completed")):
                out["viol"].append(("valid-tuple-fails", "%s: accepted but %s" % (C.describe(t), bad[:1] or "incomplete")))
        return out
    except _TO:
        out["status"] = "inconclusive"
        return out
    finally:
        signal.alarm(0)
        signal.signal(signal.SIGALRM, old)


def _box(tier):
    N = 8 if tier == "quick" else 16
    for n in range(-1, N + 1):
        top = max(n, 0) + 2
        for a in range(0, top + 1):
            for b in range(0, min(top, 4) + 1):
                for tr in ("maximum", "revolve"):
                    yield {"cls": "Multistage", "n": n, "ram": a, "disk": b, "traj": tr, "passes": 1}
                yield {"cls": "HRevolve", "n": n, "s": a, "d": b, "c8": [8, 8, 16, 16], "passes": 1}
                if b == 1:
                    yield {"cls": "HRevolve", "n": n, "s": a, "d": b, "c8": [8, 24, 4, 40], "passes": 1}
            for stg in STORAGES:
                yield {"cls": "Mixed", "n": n, "s": a, "storage": stg, "passes": 1}
            for c in ("Revolve", "DiskRevolve", "PeriodicDiskRevolve"):
                yield {"cls": c, "n": n, "s": a, "c8": [8, 8, 16, 16], "passes": 1}
                yield {"cls": c, "n": n, "s": a, "c8": [16, 8, 0, 8], "passes": 1}
    # valid tuples in unusual cost units (very large / very small / one-decimal step and transfer costs)
    for n in (1, 2, 3, 12, 40):
        for a in (1, 2):
            for kw in ({"c8": [8 << 40, 8 << 40, 16 << 40, 16 << 40]}, {"c8": [8, 8, 16, 16], "den": 8 << 40},
                       {"c8": [3 << 30, 1 << 30, 1 << 28, 5 << 30]}, {"c8": [3, 10, 9, 11], "den": 10}):
                for c in ("Revolve", "DiskRevolve", "PeriodicDiskRevolve"):
                    t = {"cls": c, "n": n, "s": a, "passes": 1}
                    t.update(kw)
                    yield t
                for b in (0, 2):
                    t = {"cls": "HRevolve", "n": n, "s": a, "d": b, "passes": 1}
                    t.update(kw)
                    yield t
    # dense (n, units) grid for the classes whose planners have data-dependent internal checks
    M = 48 if tier == "quick" else 100
    for n in range(N + 1, M + 1):
        for a in range(1, n):
            yield {"cls": "Mixed", "n": n, "s": a, "storage": "RAM" if (n + a) % 2 else "DISK", "passes": 1}
            yield {"cls": "Multistage", "n": n, "ram": a % 3, "disk": a - a % 3 if a - a % 3 + a % 3 > 0 else 1, "traj": "maximum" if n % 2 else "revolve", "passes": 1}
            if a <= 12:
                yield {"cls": "Revolve", "n": n, "s": a, "c8": [8, 8, 16, 16], "passes": 1}
    for p in range(-1, 5):
        for b in range(0, 4):
            for stg in STORAGES:
                for tr in ("maximum", "revolve"):
                    for n in (1, 2, 3, max(p, 1) * 2 + 1):
                        yield {"cls": "TwoLevel", "period": p, "b": b, "storage": stg, "traj": tr, "n": n, "passes": 1}
    for n in range(1, N + 1):
        yield {"cls": "None", "n": n, "passes": 0}
        yield {"cls": "SingleMemory", "n": n, "passes": 1}
        yield {"cls": "SingleDisk", "move": False, "n": n, "passes": 1}
        yield {"cls": "SingleDisk", "move": True, "n": n, "passes": 1}


def _gen(job):
    tier, seed, shard, count = job
    return [_probe(c) for c in C.generate(C.sweep_strategy(tier), count, seed * 1000 + shard)]


def _cold(cfgs):
    """Large-n probes with cold memo tables: each in a pristine child of the fork server."""
    from .. import forkserver
    cl = forkserver.client()
    return [cl.call("vlib.props.c17._probe", c) for c in cfgs]


def run_seq(payload):
    """(in a pristine child) valid tuples probed in order in ONE process; stops at the first that fails."""
    out = []
    for t in payload["seq"]:
        o = _probe(t)
        out.append(o)
        if o["viol"]:
            break
    return out


def sequences(tier):
    """Ordered histories of valid constructions in one process: a valid tuple must yield its stream
    whatever was built before (tables kept from a smaller / larger / neighbouring problem). Sweeps of
    max_n up, down and in steps of two with everything else fixed, and a rotation through the Revolve
    family; the pool's own order (and the cold probes) never produce these."""
    N = 12 if tier == "quick" else 24
    seqs = []
    fam = ("Revolve", "DiskRevolve", "PeriodicDiskRevolve", "HRevolve")

    def mk(c, n, a, c8):
        if c == "Multistage":
            return {"cls": c, "n": n, "ram": a // 2, "disk": a - a // 2, "traj": "maximum", "passes": 1}
        if c == "Mixed":
            return {"cls": c, "n": n, "s": a, "storage": "DISK", "passes": 1}
        t = {"cls": c, "n": n, "s": a, "c8": list(c8), "passes": 1}
        if c == "HRevolve":
            t["d"] = 1
        return t
    for c in fam + ("Multistage", "Mixed"):
        for a in (1, 2, 3):
            for c8 in ([8, 8, 16, 16], [16, 8, 4, 8]):
                if c in ("Multistage", "Mixed") and c8[0] != 8:
                    continue
                up = [mk(c, n, a, c8) for n in range(1, N + 1)]
                seqs += [up, up[::-1], up[::2] + up[1::2], [up[0], up[2], up[1], up[5], up[3], up[4], up[-1], up[-2]]]
    for a in (1, 2):
        for c8 in ([8, 8, 16, 16], [16, 8, 4, 8]):
            for shift in range(4):
                seqs.append([mk(fam[(i + shift) % 4], 1 + i, a, c8) for i in range(N)])
                seqs.append([mk(fam[(i + shift) % 4], N - i, a, c8) for i in range(N)])
    return seqs


def _seq_jobs(seqs):
    from .. import forkserver
    cl = forkserver.client()
    return [(q, cl.call("vlib.props.c17.run_seq", {"seq": q})) for q in seqs]


def check_witness(data, show=False):
    w = data["witness"]
    if isinstance(w, dict) and "sequence" in w:
        q = w["sequence"]
        res = R.pristine_call("vlib.props.c17.run_seq", {"seq": q})
        if show:
            print("replaying in one fresh process: " + " ; then ".join(C.describe(t) for t in q))
        if len(res) != len(q):
            return []
        return [((C.variant(q[-1]), pred), w, detail + " [after %d earlier construction(s) in the same process]" % (len(q) - 1), "sequence") for pred, detail in res[-1]["viol"]]
    out = R.pristine_call("vlib.props.c17._probe", w)      # cold process: independent of what ran before
    if show:
        print("replaying %s: domain=%s outcome=%s" % (C.describe(w), out["dom"], out["outcome"]))
    return [((C.variant(w), pred), w, detail, "config") for pred, detail in out["viol"]]


def run(prop, args):
    rep = R.Report(prop, args, RULE)
    if args.replay:
        rep.evaluations = 1
        for b, w, d, k in check_witness(R.load_replay(args.replay), show=True):
            rep.add_violation(b, w, d, kind=k)
        return rep.finish()
    tier = args.tier
    box = list(_box(tier))
    res = R.pmap(_probe, box)
    count = 60 if tier == "quick" else 1500
    res += [x for part in R.pmap(_gen, [(tier, args.seed, k, count) for k in range(16)], chunksize=1) for x in part]
    large = list(C.large_n_probes(tier))
    res += [x for part in R.pmap(_cold, R.chunks(large, 16), chunksize=1) for x in part]
    rep.extra["large_n_cold_probes"] = len(large)
    rep.exhaustive = [{"box": "max_n in -1..%d, unit counts 0..max_n+2 (DISK<=4), all four storages, period in -1..4, both trajectories" % (8 if tier == "quick" else 16),
                       "cases": len(box), "exhaustive": True}]
    outcomes = {}
    for out in res:
        t = out["t"]
        rep.evaluations += 1
        if out["status"] == "inconclusive":
            rep.inconclusive += 1
            continue
        rep.count("hist", "%s:%s" % (t["cls"], out["dom"]))
        key = "%s | %s" % (out["dom"], (out["outcome"] or "").split(":")[0])
        outcomes[key] = outcomes.get(key, 0) + 1
        nt = out["dom"] != "valid" or t["n"] == 1 or (t["cls"] not in C.ONLINE and C.total_units(t) >= t["n"])
        if nt:
            rep.nontrivial.add(C.chash(t))
            if len(rep.nontrivial) % 499 == 1:
                rep.sample({"call": C.describe(t), "domain": out["dom"], "outcome": out["outcome"]})
        for pred, detail in out["viol"]:
            rep.add_violation((C.variant(t), pred), t, detail)
    rep.extra["outcomes"] = outcomes
    seqs = sequences(tier)
    nprobe = 0
    for part in R.pmap(_seq_jobs, R.chunks(seqs, max(1, len(seqs) // 32 + 1)), chunksize=1):
        for q, results in part:
            nprobe += len(results)
            rep.evaluations += len(results)
            if any(o["status"] == "inconclusive" for o in results):
                rep.inconclusive += 1
                continue
            rep.nontrivial.add("seq:" + C.chash({"q": q}))
            k = len(results)
            for pred, detail in results[-1]["viol"]:
                if k == 1:
                    rep.add_violation((C.variant(q[0]), pred), q[0], detail)
                else:
                    rep.add_violation((C.variant(q[k - 1]), pred), {"sequence": q[:k]}, detail + " [after %d earlier construction(s) in the same process]" % (k - 1), kind="sequence")
    rep.exhaustive.append({"box": "ordered histories in one pristine process: max_n swept up / down / in steps of two / shuffled with units and costs fixed (Revolve family, Multistage, Mixed; 1..3 units; 2 cost vectors), and rotations through the Revolve family",
                           "cases": len(seqs), "exhaustive": True})
    rep.extra["sequence_probes"] = nprobe
    R.run_regress(rep, check_witness)
    rep.assumptions = ["documented domain as in DESIGN 2.1; negative unit counts and non-positive costs are outside every documented domain and outside the statement's invalid list, never generated",
                       "Revolve family with max_n=1 and 0 RAM units: statement and class docstring disagree, either behaviour accepted"]

    def shrink(b, w):
        from .. import forkserver
        if "sequence" in w:
            def fails_seq(q):
                res = R.pristine_call("vlib.props.c17.run_seq", {"seq": q})
                return len(res) == len(q) and any(p == b[1] for p, _ in res[-1]["viol"])
            q = list(w["sequence"])
            if not fails_seq(q):
                return None
            i = 0
            while i < len(q) - 1:
                cand = q[:i] + q[i + 1:]
                if fails_seq(cand):
                    q = cand
                else:
                    i += 1
            res = R.pristine_call("vlib.props.c17.run_seq", {"seq": q})
            d = [d for p, d in res[-1]["viol"] if p == b[1]]
            return {"sequence": q}, d[0] + (" [after %d earlier construction(s) in the same process]" % (len(q) - 1) if len(q) > 1 else "")

        def det(c):
            o = forkserver.client().call("vlib.props.c17._probe", c)     # every candidate in a pristine child
            return next((d for p, d in o["viol"] if p == b[1]), None)
        small = C.shrink(w, lambda c: det(c) is not None, budget=120, is_valid=lambda c: domain(c) == domain(w) and min(
            [v for k, v in c.items() if k in ("ram", "disk", "s", "d", "b") and isinstance(v, int)] or [0]) >= 0 and c["n"] >= -1 and c.get("period", 1) >= -1)
        d_ = det(small)
        return (small, d_) if d_ else None      # None: not reproducible in isolation
    return rep.finish(shrink_fn=shrink)

"""C16 - Mixed schedules are identical with and without numba.

numba itself cannot be installed offline. The tabulated planner
(mixed_steps_tabulation) is selected by `mixed.numba is not None`; the harness
sets that module attribute to a sentinel to force the tabulated branch with the
unmodified source (njit falls back to an identity wrapper), and compares
(a) every table entry with the memoised planner and (b) complete streams."""
from .. import configs as C
from .. import runner as R

RULE = ("cases = table entries (n_i, s_i) compared componentwise (step kind, step length, cost) + Mixed configs whose streams are produced on both planner paths; "
        "non-trivial = 1 < s < n-1; distinct = distinct (n, s) entry or distinct stream config")


def _table(job):
    N, lo, hi = job
    from .. import lib
    mx = lib.cs_mixed
    bad = []
    cnt = 0
    try:
        tab = lib.quiet(mx.mixed_steps_tabulation, N, N - 1)
    except Exception as e:
        return 0, [(N, N - 1, "mixed_steps_tabulation(%d,%d) raised %s: %s" % (N, N - 1, type(e).__name__, e), "n/a")]
    for n in range(lo, hi + 1):
        for s in range(1, N):
            if s > n - 1 and s != max(n - 1, 1):
                # entries with s > n-1 are only ever indexed after clamping (s <= max_n-1 overall) -- still compare with clamped memo
                pass
            t = tuple(int(x) for x in tab[n, s])
            try:
                m = tuple(int(x) for x in lib.quiet(mx.mixed_step_memoization, n, s))
            except Exception as e:
                bad.append((n, s, t, "raise %s" % type(e).__name__))
                continue
            cnt += 1
            if t != m:
                bad.append((n, s, t, m))
    return cnt, bad


def _tall(job):
    """Tall-narrow table: many steps, few units (where the planners' long split searches live)."""
    N, S = job
    from .. import lib
    mx = lib.cs_mixed
    try:
        tab = lib.quiet(mx.mixed_steps_tabulation, N, S)
    except Exception as e:
        return 0, [(N, S, "mixed_steps_tabulation(%d,%d) raised %s: %s" % (N, S, type(e).__name__, e), "n/a")]
    bad = []
    cnt = 0
    for s_i in range(1, S + 1):
        for n in range(1, N + 1):
            t = tuple(int(x) for x in tab[n, s_i])
            try:
                m = tuple(int(x) for x in lib.quiet(mx.mixed_step_memoization, n, s_i))
            except Exception as e:
                bad.append((n, s_i, t, "raise %s" % type(e).__name__))
                continue
            cnt += 1
            if t != m:
                bad.append((n, s_i, t, m))
    return cnt, bad[:50]


def _column(job):
    """Single-unit column far beyond every other table: O(n) to build, and its closed-form cost
    n(n+1)/2-1 is the first table value to leave a 32-bit range (at n = 65536)."""
    N = job
    from .. import lib
    mx = lib.cs_mixed
    bad = []
    try:
        tab = lib.quiet(mx.mixed_steps_tabulation, N, 1)
    except Exception as e:
        return 0, [(N, 1, "mixed_steps_tabulation(%d,1) raised %s: %s" % (N, type(e).__name__, str(e)[:80]), "n/a")]
    cnt = 0
    for n in sorted({2, 3, 255, 256, 257, 46340, 46341, 65535, 65536, 65537, N - 1, N}):
        if n > N:
            continue
        t = tuple(int(x) for x in tab[n, 1])
        m = tuple(int(x) for x in lib.quiet(mx.mixed_step_memoization, n, 1))
        cnt += 1
        if t != m:
            bad.append((n, 1, t, m))
    return cnt, bad


def _stream_pair(job):
    n, s, stg = job
    from .. import monitor
    base = {"cls": "Mixed", "n": n, "s": s, "storage": stg, "passes": 1}
    r0 = monitor.execute(base, want_trace=True)
    forced = dict(base)
    forced["numba"] = True
    r1 = monitor.execute(forced, want_trace=True)
    out = {"job": [n, s, stg], "viol": [], "status": "ok"}
    if "inconclusive" in (r0["status"], r1["status"]):
        out["status"] = "inconclusive"
        return out
    for name, r, cfg in (("memoised", r0, base), ("tabulated", r1, forced)):
        v = [x for x in r["viol"] if x[0] in ("C01", "C02", "C17", "C18")]
        if r["status"] != "ok" or not r.get("completed") or v:
            out["viol"].append(("%s-path-not-executable" % name, cfg, "%s: %s" % (C.describe(cfg), (r.get("lib_exc") or v[:1] or r["viol"][:1]))))
    if not out["viol"] and r0["trace"] != r1["trace"]:
        a, b = r0["trace"], r1["trace"]
        i = next((j for j in range(min(len(a), len(b))) if a[j] != b[j]), min(len(a), len(b)))
        out["viol"].append(("streams-differ", forced, "Mixed(%d,%d,%s): action %d is %s with the memoised planner, %s with the tabulated planner" % (
            n, s, stg, i + 1, monitor.fmt(a[i]) if i < len(a) else "<end>", monitor.fmt(b[i]) if i < len(b) else "<end>")))
    out["digest"] = r0.get("digest")
    out["head"] = r0.get("head")
    out["actions"] = r0.get("actions")
    return out


def cold_pair(payload):
    """(alone in a pristine interpreter) both planner paths for a schedule with hundreds of units: the
    memoised planner recurses about two frames per unit, the tabulated one is iterative."""
    return _stream_pair(tuple(payload["job"]))


def run_seq(payload):
    """(in a pristine child) an ordered history of Mixed schedules in ONE process, each produced on both
    planner paths: the tabulated path must agree with the memoised one whatever was tabulated before."""
    out = []
    for j in payload["seq"]:
        o = _stream_pair(tuple(j))
        out.append({"job": o["job"], "viol": o["viol"], "status": o["status"]})
        if o["viol"]:
            break
    return out


def sequences(tier, seed):
    """Histories in every order of sizes: the pool runs the stream pairs in ascending (n, s), which a
    planner that keeps tables from earlier schedules never notices. Here: descending n with ascending
    s, ascending n with descending s, zig-zags, and Hypothesis-drawn permutations of small sizes."""
    from hypothesis import strategies as st
    seqs = []
    stg = ("RAM", "DISK")
    for top in (5, 8, 12, 20):
        down = [(top - i, 1 + i, stg[i % 2]) for i in range(top - 2) if top - i >= 2]
        seqs.append(down)                                   # fewer steps, more units
        seqs.append(list(reversed(down)))                   # more steps, fewer units
        seqs.append([(top, 1, "DISK"), (3, 2, "DISK"), (top, 2, "RAM"), (2, 1, "RAM"), (top + 1, top - 1, "DISK"), (4, 3, "RAM")])
    for a in range(2, 8):
        for b in range(2, 8):
            if a != b:
                seqs.append([(a, 1, "DISK"), (b, b - 1, "DISK")])
                seqs.append([(a, a - 1, "RAM"), (b, 1, "RAM")])
    one = st.tuples(st.integers(1, 14), st.integers(1, 8), st.sampled_from(stg)).map(lambda t: (t[0], max(min(1, t[0] - 1), min(t[1], t[0] + 1)), t[2]))
    for q in C.generate(st.lists(one, min_size=3, max_size=7), 40 if tier == "quick" else 400, seed):
        seqs.append(list(q))
    return [[list(j) for j in q] for q in seqs]


def _seq_jobs(seqs):
    from .. import forkserver
    cl = forkserver.client()
    return [(q, cl.call("vlib.props.c16.run_seq", {"seq": q})) for q in seqs]


COLD = {"quick": [(340, 336, "RAM")], "thorough": [(340, 336, "RAM"), (455, 450, "DISK")]}


def _cold_viol(job):
    out = R.pristine_call("vlib.props.c16.cold_pair", {"job": list(job)})
    return [(("Mixed", pred), dict(cfg, cold=True), detail + " [alone in a fresh interpreter]", "cold") for pred, cfg, detail in out["viol"]]


def check_witness(data, show=False):
    w = data["witness"]
    if isinstance(w, dict) and w.get("cold"):
        return _cold_viol((w["n"], w["s"], w["storage"]))
    if isinstance(w, dict) and "sequence" in w:
        res = R.pristine_call("vlib.props.c16.run_seq", {"seq": w["sequence"]})
        if show:
            print("replaying in one fresh process: " + " ; then ".join("Mixed(%d,%d,%s) on both planner paths" % tuple(j) for j in w["sequence"]))
        return [(("Mixed", pred), {"sequence": w["sequence"]}, detail + " [after %d earlier Mixed schedule(s) in the same process]" % (len(res) - 1), "sequence")
                for pred, cfg, detail in res[-1]["viol"]] if len(res) == len(w["sequence"]) else []
    if data.get("kind") == "entry":
        n, s = w["n"], w["s"]
        cnt, bad = _table((max(n, s + 1), n, n))
        return [(("planner", "table-entry-differs"), w, "entry (n=%d,s=%d): tabulated %s, memoised %s" % (bn, bs, t, m), "entry")
                for (bn, bs, t, m) in bad if (bn, bs) == (n, s)]
    out = _stream_pair((w["n"], w["s"], w["storage"]))
    return [(("Mixed", pred), cfg, detail, "config") for pred, cfg, detail in out["viol"]]


def run(prop, args):
    rep = R.Report(prop, args, RULE)
    if args.replay:
        rep.evaluations = 1
        for b, w, d, k in check_witness(R.load_replay(args.replay)):
            rep.add_violation(b, w, d, kind=k)
        return rep.finish()
    tier = args.tier
    N = 100 if tier == "quick" else 200
    NT, ST = (320, 40) if tier == "quick" else (640, 64)
    import multiprocessing.pool
    tall_async = R.pool().apply_async(_tall, ((NT, ST),))
    cold = [(j, R.pristine_start("vlib.props.c16.cold_pair", {"job": list(j)})) for j in COLD[tier]]
    parts = R.pmap(_table, [(N, lo, min(lo + 3, N)) for lo in range(1, N + 1, 4)], chunksize=1)
    tall_cnt, tall_bad = tall_async.get(timeout=7200)
    parts.append((tall_cnt, tall_bad))
    parts.append(_column(70000 if tier == "quick" else 200000))
    for n in range(N + 1, NT + 1):
        for sx in range(2, min(ST, n - 2) + 1):
            rep.nontrivial.add(("entry", n, sx))
    entries = sum(c for c, _ in parts)
    rep.evaluations += entries
    for n in range(1, N + 1):
        for s in range(1, N):
            if 1 < s < n - 1:
                rep.nontrivial.add(("entry", n, s))
    for _, bad in parts:
        for (n, s, t, m) in bad:
            rep.add_violation(("planner", "table-entry-differs"), {"n": n, "s": s}, "entry (n=%d,s=%d): tabulated %s, memoised %s" % (n, s, t, m), kind="entry")
    rep.exhaustive = [{"box": "all table entries 1<=n_i<=%d, 1<=s_i<=%d, plus the tall-narrow table 1<=n_i<=%d, 1<=s_i<=%d" % (N, N - 1, NT, ST), "cases": entries, "exhaustive": True}]
    NS = 30 if tier == "quick" else 70
    jobs = [(n, s, stg) for n in range(1, NS + 1) for s in range(min(1, n - 1), n + 2) for stg in ("RAM", "DISK")]
    from hypothesis import strategies as st
    extra = C.generate(st.tuples(st.integers(NS + 1, 100 if tier == "quick" else 250), st.integers(1, 12), st.sampled_from(["RAM", "DISK"])),
                       30 if tier == "quick" else 300, args.seed)
    jobs += sorted(set((n, min(s, n), g) for n, s, g in extra))
    jobs += [(n, sx, "DISK") for n in (207, 256, 257, 300) for sx in (3, 18, 24)]
    res = R.pmap(_stream_pair, jobs)
    rep.exhaustive.append({"box": "streams on both planner paths, n<=%d, every s, both storages" % NS, "cases": len(jobs) - len(set(extra)), "exhaustive": True})
    for out in res:
        n, s, stg = out["job"]
        rep.evaluations += 2
        if out["status"] == "inconclusive":
            rep.inconclusive += 1
            continue
        if 1 < s < n - 1:
            rep.nontrivial.add(("stream", n, s, stg))
            if len(rep.samples) < 6 and (n * 7 + s) % 131 == 0:
                rep.sample({"call": "MixedCheckpointSchedule(%d,%d,storage=%s) on both planner paths" % (n, s, stg), "actions": out.get("actions"),
                            "stream_digest": out.get("digest"), "first_actions": out.get("head")})
        for pred, cfg, detail in out["viol"]:
            rep.add_violation(("Mixed", pred), cfg, detail)
    seqs = sequences(tier, args.seed)
    nseq = 0
    for part in R.pmap(_seq_jobs, R.chunks(seqs, max(1, len(seqs) // 32 + 1)), chunksize=1):
        for q, results in part:
            nseq += 1
            rep.evaluations += 2 * len(results)
            if any(r["status"] == "inconclusive" for r in results):
                rep.inconclusive += 1
                continue
            if len(q) >= 2:
                rep.nontrivial.add(("sequence", C.key(q)))
            last = results[-1]
            for pred, cfg, detail in last["viol"]:
                k = len(results)
                if k == 1:
                    rep.add_violation(("Mixed", pred), cfg, detail)
                else:
                    rep.add_violation(("Mixed", pred), {"sequence": q[:k]}, detail + " [after %d earlier Mixed schedule(s) in the same process]" % (k - 1), kind="sequence")
    rep.exhaustive.append({"box": "ordered histories of Mixed schedules on both planner paths in one pristine process (descending/ascending/zig-zag sizes, every ordered pair of sizes 2..7, %d drawn permutations)" % (40 if tier == "quick" else 400),
                           "cases": nseq, "exhaustive": False})
    for j, h in cold:
        out = R.pristine_wait(h)
        rep.evaluations += 2
        if out["status"] == "inconclusive":
            rep.inconclusive += 1
            continue
        rep.nontrivial.add(("stream", ) + tuple(j))
        rep.count("regions", "cold-many-units")
        for pred, cfg, detail in out["viol"]:
            rep.add_violation(("Mixed", pred), dict(cfg, cold=True), detail + " [alone in a fresh interpreter]", kind="cold")
    R.run_regress(rep, check_witness)
    if not rep.samples:
        rep.sample({"call": "MixedCheckpointSchedule(%d,%d,storage=%s) on both planner paths" % tuple(res[-1]["job"]), "stream_digest": res[-1].get("digest")})
    rep.assumptions = ["numba is not installable offline: the compiled artefact (int64 overflow, typing) is not exercised; the tabulated algorithm is compared as CPython+NumPy runs it",
                       "tabulated branch forced by setting the module attribute mixed.numba to a sentinel (unmodified library source)"]

    def shrink(b, w):
        if b[0] != "Mixed":
            return None
        if "sequence" in w:
            def fails_seq(q):
                res = R.pristine_call("vlib.props.c16.run_seq", {"seq": q})
                return len(res) == len(q) and any(p == b[1] for p, _, _ in res[-1]["viol"])
            q = list(w["sequence"])
            if not fails_seq(q):
                return None
            i = 0
            while i < len(q) - 1 and len(q) > 1:
                cand = q[:i] + q[i + 1:]
                if fails_seq(cand):
                    q = cand
                else:
                    i += 1
            res = R.pristine_call("vlib.props.c16.run_seq", {"seq": q})
            d = [d for p, _, d in res[-1]["viol"] if p == b[1]]
            return {"sequence": q}, d[0] + (" [after %d earlier Mixed schedule(s) in the same process]" % (len(q) - 1) if len(q) > 1 else "")
        if w.get("cold"):
            v = [x for x in _cold_viol((w["n"], w["s"], w["storage"])) if x[0][1] == b[1]]
            return (v[0][1], v[0][2]) if v else None

        def fails(c):
            return any(p == b[1] for p, _, _ in _stream_pair((c["n"], c["s"], c["storage"]))["viol"])
        small = C.shrink(w, fails, budget=100, is_valid=lambda c: C.valid({k: v for k, v in c.items() if k != "numba"}) and c.get("numba"))
        o = _stream_pair((small["n"], small["s"], small["storage"]))
        d = [d for p, _, d in o["viol"] if p == b[1]]
        return (small, d[0]) if d else None      # None: not reproducible in isolation
    return rep.finish(shrink_fn=shrink)

"""C19 - PeriodicDiskRevolve is periodic with an n-independent period equal to
the Aupy & Herrmann (2017) closed form.

Per cost vector a group of n values spread over 1..6m+3 is run; every stream
is checked against the closed-form period m (exact rationals; costs dyadic so
the library's float comparison is exact, DESIGN C19)."""
from .. import configs as C
from .. import oracles as O
from .. import runner as R

RULE = ("cases = (RAM units cm, uf, ub, wd, rd) groups x 6-10 values of n spread over 1..6m+3; exhaustive cost grid + Hypothesis draws; "
        "non-trivial = stream with k>=2 periodic DISK checkpoints; distinct = distinct (cm, costs, n)")


def _one(cm, c8, n, m):
    from .. import monitor
    cfg = {"cls": "PeriodicDiskRevolve", "n": n, "s": cm, "c8": list(c8[:4]), "passes": 1}
    if len(c8) == 5:                      # cost unit other than 1/8 (power of two: exact)
        cfg["den"] = c8[4]
    r = monitor.execute(cfg, want_trace=True)
    out = {"cfg": cfg, "viol": [], "status": r["status"], "k": 0}
    if r["status"] == "inconclusive":
        return out
    if r["status"] != "ok" or not r.get("completed"):
        out["viol"].append(("stream-incomplete", "%s: no complete stream (%s)" % (C.describe(cfg), r.get("lib_exc") or r["viol"][:1])))
        return out
    tr = r["trace"]
    iend = next(i for i, t in enumerate(tr) if t[0] == "EF")
    dw = [t[1] for t in tr[:iend] if t[0] == "F" and t[5] == "DISK"]
    late = [t for t in tr[iend:] if t[0] == "F" and t[5] == "DISK"]
    # "as long as more than m steps remain": the paper and the code count l = n-1 units
    l = n - 1
    k = 0
    while l - k * m > m:
        k += 1
    exp = [j * m for j in range(k)]
    out["k"] = k
    reads = [t[1] for t in tr if t[0] in ("C", "M") and t[2] == "DISK"]
    d = C.describe(cfg)
    if dw != exp:
        out["viol"].append(("disk-writes-not-periodic", "%s: DISK checkpoints written at %s during the forward sweep, period m=%d requires %s" % (d, dw[:10], m, exp[:10])))
    if late:
        out["viol"].append(("disk-write-after-endforward", "%s: %s after EndForward" % (d, monitor.fmt(late[0]))))
    if sorted(reads) != sorted(set(dw)) or len(reads) != len(set(reads)):
        out["viol"].append(("disk-checkpoint-read-count", "%s: DISK checkpoints %s, DISK loads %s (each must be read exactly once)" % (d, dw[:10], reads[:12])))
    # forward steps spent in segment j: the final segment over the whole stream, the others after EndForward
    if dw == exp:
        stp = {}
        for i, t in enumerate(tr):
            if t[0] == "F":
                j = min(t[1] // m, k)
                if j == k or i > iend:
                    stp[j] = stp.get(j, 0) + (min(t[2], n) - t[1])
        for j in range(k + 1):
            L = m if j < k else n - k * m
            want = O.gw_total(L, cm) if L > 1 else 1
            if stp.get(j, 0) != want:
                out["viol"].append(("segment-not-revolve-optimal", "%s: segment %d (length %d) reversed with %d forward steps, memory-only optimum with %d units is %d" % (
                    d, j, L, stp.get(j, 0), cm, want)))
                break
    out["digest"] = r["digest"]
    out["head"] = r["head"]
    return out


def _group(job):
    cm, c8 = job
    uf, ub, wd, rd = c8[:4]
    m = O.period_closed_form(cm, uf, wd, rd)
    if len(c8) == 4 and c8[3] == 0 and c8[0] == 8 and c8[2] % 8 == 0 and c8[2] >= 16 * 8:
        ns = sorted({m + 1, m + 2, 2 * m + 2, 3 * m + 1})          # ratio staircase sweep: a few n per cost vector
    else:
        ns = sorted({1, 2, m, m + 1, m + 2, 2 * m, 2 * m + 1, 2 * m + 2, 3 * m + 1, 4 * m + (cm % 3), 6 * m + 3} | {max(1, (m * q) // 4 + 1) for q in (5, 9, 14)})
    ns = [n for n in ns if 1 <= n <= 700]
    runs = []
    for n in ns:
        runs.append(_one(cm, c8, n, m))
        if runs[-1]["status"] == "inconclusive":
            break       # the wall-clock guard fired: the other n of this cost vector would take as long
    return {"job": [cm, c8], "m": m, "runs": runs}


def seq_ones(payload):
    """(in a pristine child) several PeriodicDiskRevolve schedules in order in ONE process."""
    out = []
    for cm, c8, n in payload["items"]:
        m = O.period_closed_form(cm, c8[0], c8[2], c8[3])
        out.append(_one(cm, c8, n, m))
    return out


def _seq_chunk(seqs):
    from .. import forkserver
    cl = forkserver.client()
    return [(seq, cl.call("vlib.props.c19.seq_ones", {"items": seq})) for seq in seqs]


def rescale_sequences(tier):
    """The same problem in other cost units: (cm, c, n) followed by (cm, k*c, n), k in {4, 1/4 via order},
    in one pristine process (tables cached per relative costs would leak the scale)."""
    for cm in (2, 3, 4):
        for base in ([8, 8, 40, 40], [8, 16, 80, 16], [4, 4, 48, 0]):
            m = O.period_closed_form(cm, base[0], base[2], base[3])
            if m > 60:
                continue
            big = [4 * x for x in base]
            for n in (m + 2, 2 * m + 1, 3 * m + 3):
                yield [[cm, base, n], [cm, big, n]]
                yield [[cm, big, n], [cm, base, n]]


def _gen(job):
    tier, seed, count = job
    from hypothesis import strategies as st

    @st.composite
    def g(draw):
        cm = draw(st.one_of(st.integers(1, 3), st.integers(1, 6)))
        uf = draw(st.integers(1, 64))
        ub = draw(st.integers(1, 64))
        wd = draw(st.one_of(st.just(0), st.integers(0, 192)))
        rd = draw(st.one_of(st.just(0), st.integers(0, 192)))
        c8 = [uf, ub, wd, rd]
        while O.period_closed_form(cm, uf, c8[2], c8[3]) > 100 and (c8[2] or c8[3]):
            c8[2] //= 2
            c8[3] //= 2
        return (cm, tuple(c8))
    return sorted(set(C.generate(g(), count, seed)))


def check_witness(data, show=False):
    w = data["witness"]
    if isinstance(w, dict) and "items" in w:
        outs = R.pristine_call("vlib.props.c19.seq_ones", {"items": w["items"]})
        seen = set()
        res = []
        for pred, detail in outs[-1]["viol"]:
            if pred not in seen:
                seen.add(pred)
                res.append((("PeriodicDiskRevolve", pred), w, detail + " [after the earlier schedules of the sequence, in one process]", "item-sequence"))
        return res
    m = O.period_closed_form(w["s"], w["c8"][0], w["c8"][2], w["c8"][3])
    out = _one(w["s"], list(w["c8"]) + ([w["den"]] if "den" in w else []), w["n"], m)
    if show:
        print("replaying %s, closed-form period m=%d" % (C.describe(w), m))
    seen = set()
    res = []
    for pred, detail in out["viol"]:
        if pred not in seen:
            seen.add(pred)
            res.append((("PeriodicDiskRevolve", pred), w, detail, "config"))
    return res


def run(prop, args):
    rep = R.Report(prop, args, RULE)
    if args.replay:
        rep.evaluations = 1
        for b, w, d, k in check_witness(R.load_replay(args.replay), show=True):
            rep.add_violation(b, w, d, kind=k)
        return rep.finish()
    tier = args.tier
    # closed form sanity: integer-ratio boundary cases are where <= vs < matters; make sure the grid contains them
    grid = []
    for cm in (1, 2, 3, 4):
        for uf in (4, 8, 16):
            for tot in (0, 8, 16, 24, 32, 48, 80, 120):
                for split in (0, 1, 2):
                    wd = (tot * split) // 2
                    grid.append((cm, (uf, 8 if split else 24, wd, tot - wd)))
    # every integer ratio (wd+rd)/uf = 0..130 (uf = 1): the whole staircase of the closed form, cm = 1..4/6
    for cm in range(1, (4 if tier == "quick" else 6) + 1):
        for ratio in range(0, 131):
            grid.append((cm, (8, 8, 8 * ratio, 0)))
    # extreme ratios between the step costs and rescaled units (all dyadic, so every makespan is exact):
    # the segment reversals must stay at the memory-only optimum whatever the magnitude of ub
    for cm in (1, 2, 3, 4):
        for c in ((1, 1 << 30, 2, 2), (1, 1 << 30, 8, 8), (8, 1 << 34, 16, 16), (1 << 30, 1, 1 << 31, 1 << 31), (1 << 30, 1, 0, 0), (1 << 30, 1 << 30, 1, 1),
                  (8 << 40, 8 << 40, 16 << 40, 16 << 40), (8 << 40, 3 << 40, 40 << 40, 8 << 40),
                  (8, 8, 16, 16, 8 << 40), (8, 3, 40, 8, 8 << 40), (5, 8, 16, 4, 8 << 40)):
            grid.append((cm, c))
    grid = [g for g in sorted(set(grid)) if O.period_closed_form(g[0], g[1][0], g[1][2], g[1][3]) <= 100]
    jobs = grid + [g for g in _gen((tier, args.seed, 60 if tier == "quick" else 4000)) if g not in set(grid)]
    res = R.pmap(_group, [(cm, list(c8)) for cm, c8 in jobs], chunksize=1)
    rep.exhaustive = [{"box": "cost grid cm in 1..4 x uf in {.5,1,2} x (wd+rd) in {0..15} x 3 splits (includes integer ratios (wd+rd)/uf where the closed form's <= matters) + every integer ratio 0..130 for cm in 1..4/6 (period <= 100)",
                       "cases": len(grid), "exhaustive": True}]
    boundary = 0
    for g in res:
        cm, c8 = g["job"]
        from fractions import Fraction
        from math import comb
        q = Fraction(c8[2] + c8[3], c8[0])
        if any(comb(cm + 1 + t, t) == q for t in range(0, 12)):
            boundary += 1
        for out in g["runs"]:
            rep.evaluations += 1
            if out["status"] == "inconclusive":
                rep.inconclusive += 1
                continue
            cfg = out["cfg"]
            rep.count("hist", "k=%s" % (out["k"] if out["k"] < 3 else ">=3"))
            if out["k"] >= 2:
                rep.nontrivial.add(C.chash(cfg))
                if len(rep.nontrivial) % 173 == 1:
                    rep.sample({"call": C.describe(cfg), "closed_form_period": g["m"], "disk_checkpoints": out["k"],
                                "stream_digest": out.get("digest"), "first_actions": out.get("head")})
            seen = set()
            for pred, detail in out["viol"]:
                if pred not in seen:
                    seen.add(pred)
                    rep.add_violation(("PeriodicDiskRevolve", pred), cfg, detail)
    seqs = list(rescale_sequences(tier))
    for part in R.pmap(_seq_chunk, R.chunks(seqs, 16), chunksize=1):
        for seq, outs in part:
            for i, out in enumerate(outs):
                rep.evaluations += 1
                seen = set()
                for pred, detail in out["viol"]:
                    if pred in seen:
                        continue
                    seen.add(pred)
                    if i == 0:
                        rep.add_violation(("PeriodicDiskRevolve", pred), out["cfg"], detail)
                    else:
                        rep.add_violation(("PeriodicDiskRevolve", pred), {"items": seq[:i + 1]},
                                          detail + " [after the same problem with costs x%s in the same process]" % ("1/4" if seq[0][1][0] > seq[1][1][0] else "4"), kind="item-sequence")
    rep.extra["rescaled_cost_sequences"] = len(seqs)
    R.run_regress(rep, check_witness)
    rep.count("regions", "cost-vectors", len(res))
    rep.count("regions", "cost-vectors-on-closed-form-boundary", boundary)
    rep.assumptions = ["'more than m steps remain' read in units l = n-1 as in Aupy & Herrmann and in the code (DESIGN C19)",
                       "dyadic costs: the library's float comparison beta <= (wd+rd)/uf agrees with the exact rational one"]

    def shrink(b, w):
        if "items" in w:
            return w, [d for p, d in R.pristine_call("vlib.props.c19.seq_ones", {"items": w["items"]})[-1]["viol"] if p == b[1]][0]

        def det(c):
            m = O.period_closed_form(c["s"], c["c8"][0], c["c8"][2], c["c8"][3])
            if m > 100:
                return None
            c8 = list(c["c8"]) + ([c["den"]] if "den" in c else [])
            return next((d for p, d in _one(c["s"], c8, c["n"], m)["viol"] if p == b[1]), None)
        small = C.shrink(w, lambda c: det(c) is not None, budget=150)
        d_ = det(small)
        return (small, d_) if d_ else None      # None: not reproducible in isolation
    return rep.finish(shrink_fn=shrink)

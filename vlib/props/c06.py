"""C06 - Mixed schedules take the minimum number of forward steps; the number
does not depend on the chosen storage.

Oracles: exhaustive search over all executable mixed schedules (small n),
independent DP validated against the search (large n), metamorphic RAM == DISK
(equal streams up to the storage label), helper optimal_steps_mixed agrees.
"""
from .. import configs as C
from .. import oracles as O
from .. import runner as R

RULE = ("cases = (n, s, storage[, planner]); exhaustive small box + Hypothesis draws; non-trivial = 1 < s < n-1 and the stream writes both "
        "a restart checkpoint and an adjoint-data checkpoint; distinct = distinct (n, s) pair")


def _selfcheck(job):
    n, s = job
    return (n, s, O.opt_mixed_search(n, s), O.dp_mixed(n, s))


def _pair(job):
    """Run (n, s) on RAM and on DISK; compare with the oracle and each other."""
    n, s = job
    from .. import monitor
    out = {"n": n, "s": s, "viol": [], "status": "ok"}
    want = O.dp_mixed(n, s)
    out["want"] = want
    traces = {}
    for stg in ("RAM", "DISK"):
        cfg = {"cls": "Mixed", "n": n, "s": s, "storage": stg, "passes": 1}
        r = monitor.execute(cfg, want_trace=True)
        if r["status"] == "inconclusive":
            out["status"] = "inconclusive"
            return out
        if r["status"] != "ok" or not r.get("completed"):
            out["viol"].append(("stream-incomplete", cfg, "%s: no complete stream (%s)" % (C.describe(cfg), r.get("lib_exc") or r["viol"][:1])))
            continue
        traces[stg] = r["trace"]
        out["steps_" + stg] = r["fsteps"]
        out["both_kinds"] = r["adj_ckpt"] > 0 and r["ics_ckpt"] > 0
        out["digest"] = r["digest"]
        out["head"] = r["head"]
        if r["fsteps"] != want:
            out["viol"].append(("steps-not-optimal", cfg, "%s advances %d forward steps, optimum over all mixed schedules is %d" % (C.describe(cfg), r["fsteps"], want)))
    if len(traces) == 2:
        def relabel(tr, a, b):
            return [tuple(b if x == a else x for x in t) for t in tr]
        if out["steps_RAM"] != out["steps_DISK"]:
            out["viol"].append(("storage-dependent-steps", {"cls": "Mixed", "n": n, "s": s, "storage": "RAM", "passes": 1},
                                "Mixed(%d,%d): %d steps on RAM, %d on DISK" % (n, s, out["steps_RAM"], out["steps_DISK"])))
        elif relabel(traces["RAM"], "RAM", "DISK") != traces["DISK"]:
            out["viol"].append(("storage-dependent-stream", {"cls": "Mixed", "n": n, "s": s, "storage": "RAM", "passes": 1},
                                "Mixed(%d,%d): RAM and DISK streams differ beyond the storage label" % (n, s)))
    from .. import lib
    try:
        h = int(lib.quiet(lib.cs_mixed.optimal_steps_mixed, n, s))
    except Exception as e:
        h = "raise %s" % type(e).__name__
    if h != want:
        out["viol"].append(("helper", {"cls": "Mixed", "n": n, "s": s, "storage": "RAM", "passes": 1},
                            "optimal_steps_mixed(%d,%d)=%r, optimum %d" % (n, s, h, want)))
    return out


PROBE_N = (257, 258, 259, 300, 301)
PROBE_S = (1, 2, 3, 4, 5, 43, 44, 255, 256, 257, 260, 299, 300)


def probe_pairs():
    """Ordered probe sequence around byte/small-int boundaries of BOTH n and the unit count
    (255/256/257) and beyond every n the pinned suite uses; ascending unit count, so that cells
    planned for few units are cached before the many-unit problems are asked for."""
    return [[n, s] for s in PROBE_S for n in PROBE_N if s <= n + 1] + MANY_UNITS


# more than a third of the default recursion limit in units (and fewer than ~490, beyond which the
# unchanged library itself exhausts the recursion limit - DESIGN section 6)
MANY_UNITS = [[335, 334], [340, 336], [340, 339], [350, 1000], [400, 360]]


# each of these runs ALONE in a pristine interpreter (cold memo tables, default recursion limit):
# the memoised planner recurses about two frames per unit, and an earlier smaller schedule in the
# same process would pre-fill part of the chain
COLD_PAIRS = [[340, 336], [352, 350], [420, 415], [455, 450]]


def seq_probe(payload):
    """Runs in a pristine interpreter (vlib.pristine): the pairs in order, in one process."""
    out = []
    for n, s in payload["pairs"]:
        o = _pair((n, s))
        out.append({"n": n, "s": s, "status": o["status"], "want": o.get("want"), "steps_RAM": o.get("steps_RAM"), "steps_DISK": o.get("steps_DISK"),
                    "viol": [[p, c, d] for p, c, d in o["viol"]]})
        if payload.get("stop_at_first") and o["viol"]:
            break
    return out


def _scan(job):
    """Planned cost of every sub-problem (n, s), lo <= n <= hi, straight from the library's planner."""
    NP, SP, lo, hi = job
    from .. import lib
    out = []
    for n in range(lo, hi + 1):
        for s in range(min(1, n - 1), min(SP, n - 1 if n > 1 else 0) + 1):
            try:
                c = int(lib.quiet(lib.cs_mixed.mixed_step_memoization, n, s)[2])
            except Exception:
                c = -1
            out.append((n, s, c))
    return out


def _gen(job):
    tier, seed, count = job
    from hypothesis import strategies as st
    nmax = 120 if tier == "quick" else 300

    @st.composite
    def ns(draw):
        n = draw(st.one_of(st.integers(4, 24), st.integers(4, 64), st.integers(4, nmax)))
        s = draw(st.one_of(st.integers(2, max(2, min(8, n - 2))), st.integers(2, max(2, n - 2)), st.integers(1, n + 1)))
        return (n, s)
    return sorted(set(C.generate(ns(), count, seed)))


def check_witness(data, show=False):
    w = data["witness"]
    if data.get("kind") == "sequence":
        res = R.pristine_call("vlib.props.c06.seq_probe", {"pairs": w["sequence"]})
        if show:
            for o in res:
                print("  Mixed(%d,%d): steps RAM=%s DISK=%s optimum=%s" % (o["n"], o["s"], o["steps_RAM"], o["steps_DISK"], o["want"]))
        last = res[-1] if res else {"viol": []}
        return [(("Mixed", p), w, d + " [after the earlier calls of the sequence, in one process]", "sequence") for p, c, d in last["viol"]]
    out = _pair((w["n"], w["s"]))
    if show:
        print("replaying Mixed(%d,%d): steps RAM=%s DISK=%s optimum=%s" % (w["n"], w["s"], out.get("steps_RAM"), out.get("steps_DISK"), out.get("want")))
    return [(("Mixed", pred), cfg, detail, "config") for pred, cfg, detail in out["viol"]]


def run(prop, args):
    rep = R.Report(prop, args, RULE)
    if args.replay:
        rep.evaluations = 1
        for b, w, d, k in check_witness(R.load_replay(args.replay), show=True):
            rep.add_violation(b, w, d, kind=k)
        return rep.finish()
    tier = args.tier
    NS = 8 if tier == "quick" else 11
    sc = R.pmap(_selfcheck, [(n, s) for n in range(1, NS + 1) for s in range(min(1, n - 1), n + 1)], chunksize=1)
    bad = [x for x in sc if x[2] != x[3]]
    if bad:
        R.harness_error("mixed oracles disagree (search vs dp): %s" % bad[:5])
    rep.extra["oracle_selfcheck"] = {"search_vs_dp_instances": len(sc), "search_n_max": NS}
    NB = 64 if tier == "quick" else 150
    jobs = [(n, s) for n in range(1, NB + 1) for s in range(min(1, n - 1), n + 2)]
    boxn = len(jobs)
    # planner scan: a dense, cheap search for sub-problems whose planned cost is not the optimum
    # (defects of a DP are sparse in (n, s)); every candidate is then CONFIRMED by running the stream
    NP, SP = (220, 40) if tier == "quick" else (420, 48)
    scan = R.pmap(_scan, [(NP, SP, lo, min(lo + 19, NP)) for lo in range(1, NP + 1, 20)], chunksize=1)
    table = O.dp_mixed_table(NP, SP)
    for n in range(1, min(NP, 40) + 1):
        for sx in range(min(1, n - 1), min(SP, n) + 1):
            if table[n, sx] != O.dp_mixed(n, sx):
                R.harness_error("dp_mixed_table != dp_mixed at (%d,%d)" % (n, sx))
    cand = []
    scanned = 0
    for part in scan:
        for (n, sx, cost) in part:
            scanned += 1
            if cost != int(table[n, min(sx, n - 1) if n > 1 else 0]):
                cand.append((n, sx))
    rep.extra["planner_scan"] = {"entries": scanned, "n_max": NP, "s_max": SP, "candidates_confirmed_by_stream": len(cand)}
    gen = _gen((tier, args.seed, 250 if tier == "quick" else 2500))
    known = set(jobs)
    jobs = jobs + [j for j in sorted(set(cand[:400]) | set(gen)) if j not in known]
    probe = R.pristine_start("vlib.props.c06.seq_probe", {"pairs": probe_pairs()})
    cold = [(pr, R.pristine_start("vlib.props.c06.seq_probe", {"pairs": [pr]})) for pr in COLD_PAIRS]
    res = R.pmap(_pair, jobs)
    pres = R.pristine_wait(probe)
    for pr, h in cold:
        o = R.pristine_wait(h)[0]
        rep.evaluations += 2
        rep.count("regions", "cold-many-units")
        seen = set()
        for pred, cfg, detail in o["viol"]:
            if pred not in seen:
                seen.add(pred)
                rep.add_violation(("Mixed", pred), {"sequence": [pr]}, detail + " [alone in a fresh interpreter]", kind="sequence")
    rep.extra["boundary_probe_sequence"] = {"pairs": len(pres), "n": list(PROBE_N), "s": list(PROBE_S)}
    seqfail = {}
    for i, o in enumerate(pres):
        rep.evaluations += 2
        rep.count("regions", "n>=257")
        if o["s"] >= 255:
            rep.count("regions", "units>=255")
        for pred, cfg, detail in o["viol"]:
            if pred not in seqfail:
                seqfail[pred] = (i, detail)
    for pred, (i, detail) in seqfail.items():
        rep.add_violation(("Mixed", pred), {"sequence": probe_pairs()[:i + 1]}, detail + " [after the earlier calls of the sequence, in one process]", kind="sequence")
    rep.exhaustive = [{"box": "Mixed n<=%d, every s in min(1,n-1)..n+1, both storages" % NB, "cases": boxn, "exhaustive": True}]
    for out in res:
        rep.evaluations += 2
        if out["status"] == "inconclusive":
            rep.inconclusive += 1
            continue
        n, s = out["n"], out["s"]
        rep.count("hist", "Mixed")
        if 1 < s < n - 1 and out.get("both_kinds"):
            rep.nontrivial.add((n, s))
            if len(rep.nontrivial) % 53 == 1:
                rep.sample({"call": "MixedCheckpointSchedule(%d,%d) on RAM and DISK" % (n, s), "forward_steps": out.get("steps_RAM"),
                            "optimum": out["want"], "stream_digest_DISK": out.get("digest"), "first_actions": out.get("head")})
        if n > 64:
            rep.count("regions", "n>64")
        for pred, cfg, detail in out["viol"]:
            rep.add_violation(("Mixed", pred), cfg, detail)
    R.run_regress(rep, check_witness)
    rep.assumptions = ["true optimum established by exhaustive search for n<=%d; beyond that by a DP validated against the search on that range" % NS]

    def shrink(b, w):
        if "sequence" in w:
            seq = w["sequence"]
            last = seq[-1]
            if len(seq) == 1:
                d = [d for p, _, d in R.pristine_call("vlib.props.c06.seq_probe", {"pairs": seq})[-1]["viol"] if p == b[1]]
                return (w, d[0] + " [alone in a fresh interpreter]") if d else None
            alone = R.pristine_call("vlib.props.c06.seq_probe", {"pairs": [last]})
            if any(p == b[1] for p, _, _ in alone[-1]["viol"]):
                return None if False else ({"cls": "Mixed", "n": last[0], "s": last[1], "storage": "RAM", "passes": 1}, [d for p, _, d in alone[-1]["viol"] if p == b[1]][0])
            pre = seq[:-1]
            tries = 0
            while len(pre) > 1 and tries < 12:      # halve the prefix while the last call still fails
                tries += 1
                half = len(pre) // 2
                for cand in (pre[half:], pre[:half]):
                    r = R.pristine_call("vlib.props.c06.seq_probe", {"pairs": cand + [last]})
                    if any(p == b[1] for p, _, _ in r[-1]["viol"]):
                        pre = cand
                        break
                else:
                    break
            r = R.pristine_call("vlib.props.c06.seq_probe", {"pairs": pre + [last]})
            d = [d for p, _, d in r[-1]["viol"] if p == b[1]]
            if not d:
                return None
            return {"sequence": pre + [last]}, d[0] + " [after the earlier calls of the sequence, in one process]"

        def fails(c):
            return any(p == b[1] for p, _, _ in _pair((c["n"], c["s"]))["viol"])
        small = C.shrink(w, fails)
        d = [d for p, _, d in _pair((small["n"], small["s"]))["viol"] if p == b[1]]
        return (small, d[0]) if d else None      # None: not reproducible in isolation
    return rep.finish(shrink_fn=shrink)

"""C18 - actions are well-formed value objects.

(a) every action emitted in a stream sweep: field predicates of the statement
    (in the monitor) + value semantics on the emitted object itself;
(b) directly constructed actions and PAIRS of actions from a Hypothesis
    strategy (biased pair classes): == never raises and is true iff same kind
    and equal parameters, != is its negation, eval(repr(a)) rebuilds an equal
    action, len / iteration / membership enumerate exactly the covered steps
    (Reverse descending)."""
import sys

from .. import configs as C
from .. import runner as R

RULE = ("cases = emitted actions of a stream sweep (distinct by value per stream), of late-finalisation histories of the online classes (k further Forwards drawn before finalize), + generated actions and action pairs; non-trivial = pair of the same kind differing in one "
        "parameter, or of different kinds with equal parameters, or an emitted/generated Forward/Reverse covering more than one step; distinct = distinct (repr a, repr b)")


def _ns():
    from .. import lib
    import numpy as np
    ns = {k: getattr(lib.cs_schedule, k) for k in ("Forward", "Reverse", "Copy", "Move", "EndForward", "EndReverse", "StorageType")}
    ns["sys"] = sys
    ns["np"] = np
    ns["numpy"] = np
    return ns


def single_checks(a):
    """Value-object checks on one action; returns [(pred, detail)]."""
    from .. import lib
    out = []
    name = type(a).__name__
    # repr round trip
    try:
        rp = repr(a)
        b = eval(rp, _ns())
        if type(b) is not type(a) or tuple(b.args) != tuple(a.args):
            out.append(("repr-roundtrip", "eval(repr(a)) of %s gives %s%r" % (rp, type(b).__name__, b.args)))
        else:
            try:
                if not (a == b) or (a != b):
                    out.append(("eq-wrong", "%s == eval(repr(a)) is false" % rp))
            except Exception as e:
                out.append(("eq-raises", "%s == eval(repr(a)) raised %s: %s" % (rp, type(e).__name__, e)))
    except Exception as e:
        out.append(("repr-roundtrip", "%s%r: repr/eval raised %s: %s" % (name, a.args, type(e).__name__, e)))
        rp = name
    # reflexivity
    try:
        if not (a == a) or (a != a):
            out.append(("eq-wrong", "%s is not equal to itself" % rp))
    except Exception as e:
        out.append(("eq-raises", "%s == itself raised %s: %s" % (rp, type(e).__name__, e)))
    # step enumeration
    if isinstance(a, (lib.Forward, lib.Reverse)):
        if isinstance(a, lib.Forward):
            n0, n1 = int(a.args[0]), int(a.args[1])
            want = range(n0, n1)
        else:
            n1, n0 = int(a.args[0]), int(a.args[1])
            want = range(n1 - 1, n0 - 1, -1)
        try:
            if len(a) != len(want):
                out.append(("len-wrong", "len(%s)=%r, covers %d steps" % (rp, len(a), len(want))))
            if len(want) <= 4096:
                got = [int(x) for x in a]
                if got != list(want):
                    out.append(("iteration-wrong", "list(%s)=%s.., expected %s.." % (rp, got[:6], list(want)[:6])))
            else:
                it = iter(a)
                got = [int(next(it)) for _ in range(3)]
                if got != list(want[:3]):
                    out.append(("iteration-wrong", "iter(%s) starts %s, expected %s" % (rp, got, list(want[:3]))))
            lo, hi = min(n0, n1), max(n0, n1)
            import numpy as np
            for x in (lo - 1, lo, lo + 1, (lo + hi) // 2, hi - 1, hi, hi + 1):
                if (x in a) != (x in want):
                    out.append(("membership-wrong", "(%d in %s) is %r" % (x, rp, x in a)))
                    break
                # the same step as a NumPy integer (what the tabulated Mixed planner puts into actions)
                if -2 ** 62 < x < 2 ** 62 and (np.int64(x) in a) != (x in want):
                    out.append(("membership-wrong", "(np.int64(%d) in %s) is %r" % (x, rp, np.int64(x) in a)))
                    break
        except Exception as e:
            out.append(("enumeration-raises", "%s: len/iter/in raised %s: %s" % (rp, type(e).__name__, e)))
    return out


def pair_checks(a, b):
    out = []
    want = type(a) is type(b) and tuple(a.args) == tuple(b.args)
    ra, rb = "%s%r" % (type(a).__name__, a.args), "%s%r" % (type(b).__name__, b.args)
    for x, y, rx, ry in ((a, b, ra, rb), (b, a, rb, ra)):
        try:
            eq = x == y
            if bool(eq) != want:
                out.append(("eq-wrong", "(%s == %s) is %r, expected %r" % (rx, ry, eq, want)))
        except Exception as e:
            out.append(("eq-raises", "%s == %s raised %s: %s" % (rx, ry, type(e).__name__, e)))
        try:
            ne = x != y
            if bool(ne) != (not want):
                out.append(("ne-wrong", "(%s != %s) is %r, expected %r" % (rx, ry, ne, not want)))
        except Exception as e:
            out.append(("ne-raises", "%s != %s raised %s: %s" % (rx, ry, type(e).__name__, e)))
    return out


def build_action(spec):
    """spec = [kind, args...] with storages as names and ints tagged ('i', v) / ('np', v) / ('max', off)."""
    from .. import lib
    import numpy as np

    def conv(x):
        if isinstance(x, list) and x and x[0] == "np":
            return np.int64(x[1])
        if isinstance(x, list) and x and x[0] == "max":
            return sys.maxsize + x[1]
        if isinstance(x, str):
            return lib.ST[x]
        return x
    k = spec[0]
    cls = {"F": lib.Forward, "R": lib.Reverse, "C": lib.Copy, "M": lib.Move, "EF": lib.EndForward, "ER": lib.EndReverse}[k]
    return cls(*[conv(x) for x in spec[1:]])


def strategies():
    from hypothesis import strategies as st
    small = st.integers(0, 12)

    def intval(v):
        return st.sampled_from([v, ["np", v]])
    stor = st.sampled_from(["RAM", "DISK", "WORK", "NONE"])
    src = st.sampled_from(["RAM", "DISK"])
    # step indices far from the small range: what an online schedule emits when it is advanced k times
    # before finalisation (k * sys.maxsize), neighbours of powers of two / ten, and integers whose
    # decimal text contains the text of sys.maxsize (repr() is a text-level round trip)
    M = sys.maxsize
    big = st.one_of(
        st.builds(lambda k, off: k * M + off, st.integers(1, 24), st.integers(-2, 2)),
        st.builds(lambda d, tail: int(str(M) + str(d)) if tail else int(str(d + 1) + str(M)), st.integers(0, 99), st.booleans()),
        st.sampled_from([2 ** 31, 2 ** 32, 2 ** 53, 2 ** 63, 2 ** 64, 10 ** 18, 10 ** 19, 10 ** 20]).flatmap(lambda v: st.integers(v - 2, v + 2)),
        st.integers(2 ** 40, 2 ** 90))

    @st.composite
    def fwd(draw):
        n0 = draw(small)
        mode = draw(st.integers(0, 9))
        if mode == 0:
            n1 = ["max", n0]          # n0 + sys.maxsize, as the online schedules emit
            a0 = n0
        elif mode == 1 and n0 == 0:
            n1 = ["max", 0]
            a0 = 0
        elif mode == 2:
            n1 = draw(big)
            a0 = n1 - draw(st.integers(1, 9))
        else:
            n1 = draw(intval(n0 + draw(st.integers(1, 9))))
            a0 = draw(intval(n0))
        wi, wa = draw(st.booleans()), draw(st.booleans())
        stg = draw(st.sampled_from(["RAM", "DISK", "WORK"])) if (wi or wa) else draw(st.sampled_from(["WORK", "NONE"]))
        return ["F", a0, n1, wi, wa, stg]

    @st.composite
    def rev(draw):
        n0 = draw(small)
        n1 = n0 + draw(st.integers(1, 9))
        if draw(st.integers(0, 9)) == 0:
            n1 = draw(big)
            return ["R", n1, n1 - draw(st.integers(1, 9)), draw(st.booleans())]
        return ["R", draw(intval(n1)), draw(intval(n0)), draw(st.booleans())]

    @st.composite
    def cpmv(draw):
        if draw(st.integers(0, 9)) == 0:
            return [draw(st.sampled_from(["C", "M"])), draw(big), draw(src), draw(stor)]
        return [draw(st.sampled_from(["C", "M"])), draw(intval(draw(small))), draw(src), draw(stor)]
    anyact = st.one_of(fwd(), rev(), cpmv(), st.sampled_from([["EF"], ["ER"]]))

    def plain(x):
        return x[1] if isinstance(x, list) and x[0] == "np" else x

    @st.composite
    def pair(draw):
        a = draw(anyact)
        mode = draw(st.integers(0, 3))
        if mode == 0:                                   # same kind, same args (possibly int vs numpy int)
            b = [a[0]] + [plain(x) if draw(st.booleans()) else x for x in a[1:]]
            return (a, b, "same")
        if mode == 1 and len(a) > 1:                    # same kind, one parameter changed
            b = list(a)
            i = draw(st.integers(1, len(a) - 1))
            x = plain(b[i]) if not (isinstance(b[i], list) and b[i][0] == "max") else b[i]
            if isinstance(x, bool):
                b[i] = not x
            elif isinstance(x, int):
                b[i] = x + 1 if not (a[0] == "R" and i == 2) else max(0, x - 1) if x > 0 else x + 0
                if a[0] == "F" and i == 1 and isinstance(plain(b[2]), int) and b[i] >= plain(b[2]):
                    b[2] = b[i] + 1
                if a[0] == "R" and i == 1:
                    pass
            elif isinstance(x, list):
                # keep n1 - n0 <= sys.maxsize (len() cannot exceed it in CPython)
                if x[1] >= 1:
                    b[i] = ["max", x[1] - 1]
                else:
                    b[3] = not b[3]
            else:
                opts = [s for s in (["RAM", "DISK"] if (a[0] in "CM" and i == 2) else ["RAM", "DISK", "WORK", "NONE"]) if s != x]
                b[i] = draw(st.sampled_from(opts))
            return (a, b, "one-changed" if b != a else "same")
        if mode == 2:                                   # different kind, equal args where arity allows
            swap = {"C": "M", "M": "C", "EF": "ER", "ER": "EF"}
            if a[0] in swap:
                return (a, [swap[a[0]]] + a[1:], "kind-changed")
            if a[0] == "R":
                return (a, ["C", a[1], "RAM", "WORK"], "kind-changed")
            return (a, ["R", a[2] if not isinstance(a[2], list) or a[2][0] == "np" else 5, a[1], True] if not (isinstance(a[2], list) and a[2][0] == "max") else ["EF"], "kind-changed")
        return (a, draw(anyact), "independent")
    return anyact, pair()


def _pairs(job):
    tier, seed, shard, count = job
    _, pair = strategies()
    res = []
    for a, b, cls in C.generate(pair, count, seed * 1000 + shard):
        try:
            A, B = build_action(a), build_action(b)
        except Exception as e:
            raise RuntimeError("harness generated an unbuildable action %r %r: %s" % (a, b, e))
        v = [(p, d) for p, d in pair_checks(A, B)] + single_checks(A) + single_checks(B)
        multi = any(x[0] in "FR" and not (isinstance(x[2], list) and x[2][0] == "max") and abs(_plain(x[2]) - _plain(x[1])) > 1 for x in (a, b))
        res.append({"a": a, "b": b, "cls": cls, "viol": v, "multi": multi, "ra": repr(A), "rb": repr(B)})
    return res


def _plain(x):
    return x[1] if isinstance(x, list) else x


def _hook_factory():
    seen = set()

    def hook(a):
        from ..lib import norm
        try:
            key = (norm(a), type(a.args[0]).__name__ if a.args else "")
        except Exception:
            return []
        if key in seen:
            return []
        seen.add(key)
        return single_checks(a)
    return hook


def _exec(cfg):
    from .. import monitor
    r = monitor.execute(cfg, action_hook=_hook_factory())
    return r


def _shard(job):
    tier, seed, shard, count = job
    return [_exec(c) for c in C.generate(C.sweep_strategy(tier), count, seed * 1000 + shard)]


def _late(job):
    """Online schedule whose driver draws k further Forward actions after the forward was already
    told to reach n, and only then calls finalize(n) (accepted per C10: told >= n). Every action
    emitted in such a history must be well formed too; no executor semantics are applied here."""
    cfg, k = job
    from .. import lib
    from ..lib import wellformed
    out = {"cfg": cfg, "k": k, "viol": [], "actions": 0}
    try:
        s = lib.quiet(C.build, cfg)
    except Exception:
        return out
    n = cfg["n"]
    extra = 0
    finalized = False
    hook = _hook_factory()
    for _ in range(40 * n + 200):
        try:
            a = lib.quiet(next, s)
        except StopIteration:
            break
        except Exception as e:
            out["raised"] = type(e).__name__
            break
        out["actions"] += 1
        for p in wellformed(a):
            out["viol"].append(("malformed-action", "%s drawing %d further Forwards before finalize(%d): %s" % (C.describe(cfg), k, n, p)))
        for pred, d in hook(a):
            out["viol"].append((pred, "%s drawing %d further Forwards before finalize(%d): %s" % (C.describe(cfg), k, n, d)))
        if not finalized and isinstance(a, lib.Forward) and int(a.args[1]) >= n:
            if extra >= k:
                try:
                    lib.quiet(s.finalize, n)
                except Exception as e:
                    out["raised"] = "finalize:" + type(e).__name__
                    break
                finalized = True
            extra += 1
        if isinstance(a, lib.EndReverse):
            break
    return out


def late_jobs(tier):
    N = 5 if tier == "quick" else 9
    for n in range(1, N + 1):
        for k in (1, 2, 3, 9, 10, 11, 19):
            yield ({"cls": "None", "n": n, "passes": 0}, k)
            yield ({"cls": "SingleMemory", "n": n, "passes": 1}, k)
            if k > 3:
                continue
            yield ({"cls": "SingleDisk", "move": False, "n": n, "passes": 1}, k)
            yield ({"cls": "SingleDisk", "move": True, "n": n, "passes": 1}, k)
            for p in (1, 2, 3):
                yield ({"cls": "TwoLevel", "period": p, "b": 1, "storage": "RAM", "traj": "maximum", "n": n, "passes": 1}, k)


def check_witness(data, show=False):
    w = data["witness"]
    res = []
    seen = set()
    if data.get("kind") == "late":
        cfg, k = w["late"]
        o = _late((cfg, k))
        for pred, d in o["viol"]:
            if pred not in seen:
                seen.add(pred)
                res.append((("emitted:" + C.variant(cfg), pred), w, d, "late"))
        return res
    if data.get("kind") == "pair":
        A, B = build_action(w["a"]), build_action(w["b"])
        if show:
            print("replaying pair %s%r , %s%r" % (type(A).__name__, A.args, type(B).__name__, B.args))
        for p, d in pair_checks(A, B) + single_checks(A) + single_checks(B):
            if p not in seen:
                seen.add(p)
                res.append((("constructed", p), w, d, "pair"))
        return res
    r = _exec(w)
    for (p, pred, detail) in r["viol"]:
        if p == "C18" and pred not in seen:
            seen.add(pred)
            res.append((("emitted:" + C.variant(w), pred), w, detail, "config"))
    return res


def run(prop, args):
    rep = R.Report(prop, args, RULE)
    if args.replay:
        rep.evaluations = 1
        for b, w, d, k in check_witness(R.load_replay(args.replay), show=True):
            rep.add_violation(b, w, d, kind=k)
        return rep.finish()
    tier = args.tier
    # (a) emitted actions
    boxcfgs = [c for c in C.box(tier, N=8 if tier == "quick" else 16)]
    res = R.pmap(_exec, boxcfgs)
    count = 60 if tier == "quick" else 1500
    res += [x for part in R.pmap(_shard, [(tier, args.seed, k, count) for k in range(16)], chunksize=1) for x in part]
    emitted = 0
    for r in res:
        cfg = r["cfg"]
        rep.evaluations += 1
        if r["status"] == "inconclusive":
            rep.inconclusive += 1
            continue
        emitted += r.get("actions", 0)
        rep.count("hist", "stream:" + C.variant(cfg))
        if r.get("multi_step", 0) > 0:
            rep.nontrivial.add("stream:" + C.chash(cfg))
        if cfg.get("numba"):
            rep.count("regions", "numpy-int-actions")
        hit = set()
        for (p, pred, detail) in r["viol"]:
            if p == prop and pred not in hit:
                hit.add(pred)
                rep.add_violation(("emitted:" + C.variant(cfg), pred), cfg, detail)
    rep.extra["emitted_actions_checked"] = emitted
    # tabulated Mixed planner emits numpy integers: include a few such streams
    for n, s in ((5, 2), (9, 3), (14, 4)):
        r = _exec({"cls": "Mixed", "n": n, "s": s, "storage": "DISK", "passes": 1, "numba": True})
        rep.evaluations += 1
        rep.count("regions", "numpy-int-actions")
        for (p, pred, detail) in r["viol"]:
            if p == prop:
                rep.add_violation(("emitted:Mixed[tabulated]", pred), r["cfg"], detail)
    # (a') late-finalisation histories of the online classes
    lres = R.pmap(_late, list(late_jobs(tier)))
    for o in lres:
        rep.evaluations += 1
        rep.count("regions", "late-finalisation-history")
        rep.nontrivial.add("late:%s:%d" % (C.key(o["cfg"]), o["k"]))
        hit = set()
        for pred, d in o["viol"]:
            if pred not in hit:
                hit.add(pred)
                rep.add_violation(("emitted:" + C.variant(o["cfg"]), pred), {"late": [o["cfg"], o["k"]]}, d, kind="late")
    # (b) constructed actions and pairs
    pc = 250 if tier == "quick" else 5000
    pres = [x for part in R.pmap(_pairs, [(tier, args.seed, k, pc) for k in range(16)], chunksize=1) for x in part]
    for x in pres:
        rep.evaluations += 1
        rep.count("hist", "pair:" + x["cls"])
        if x["cls"] in ("one-changed", "kind-changed") or x["multi"]:
            rep.nontrivial.add((x["ra"], x["rb"]))
            if len(rep.samples) < 8 and len(rep.nontrivial) % 389 == 1:
                rep.sample({"a": x["ra"], "b": x["rb"], "pair_class": x["cls"]})
        hit = set()
        for p, d in x["viol"]:
            if p not in hit:
                hit.add(p)
                rep.add_violation(("constructed", p), {"a": x["a"], "b": x["b"]}, d, kind="pair")
    R.run_regress(rep, check_witness)
    rep.assumptions = ["comparison with non-action objects is not part of the statement and not tested",
                       "expected equality computed from raw .args tuples and type identity, never through the library's =="]

    def shrink(b, w):
        if isinstance(w, dict) and "late" in w:
            best = None
            for n in range(1, w["late"][0]["n"] + 1):
                for k in range(1, w["late"][1] + 1):
                    c = dict(w["late"][0])
                    c["n"] = n
                    o = _late((c, k))
                    d = [d for p, d in o["viol"] if p == b[1]]
                    if d:
                        return {"late": [c, k]}, d[0]
            return best
        if b[0] == "constructed":
            # shrink numbers towards 0/1 while the predicate still fails
            def fails(a_, b_):
                try:
                    A, B = build_action(a_), build_action(b_)
                    return any(p == b[1] for p, _ in pair_checks(A, B) + single_checks(A) + single_checks(B))
                except Exception:
                    return False
            a_, b_ = w["a"], w["b"]
            for cand in ((["EF"], ["EF"]), (["EF"], ["ER"]), (["C", 0, "RAM", "WORK"], ["C", 0, "RAM", "WORK"]), (["C", 0, "RAM", "WORK"], ["M", 0, "RAM", "WORK"]),
                         (["F", 0, 1, False, False, "WORK"], ["F", 0, 1, False, False, "WORK"]), (["F", 0, 2, False, False, "WORK"], ["F", 0, 2, False, False, "WORK"]),
                         (["R", 2, 0, True], ["R", 2, 0, True]), (a_, a_), (b_, b_)):
                if fails(*cand):
                    a_, b_ = cand
                    break
            A, B = build_action(a_), build_action(b_)
            d = [d for p, d in pair_checks(A, B) + single_checks(A) + single_checks(B) if p == b[1]]
            return {"a": a_, "b": b_}, d[0] if d else ""
        def det(c):
            return next((d for (p, pred, d) in _exec(c)["viol"] if p == prop and pred == b[1]), None)
        small = C.shrink(w, lambda c: det(c) is not None, budget=80)
        d_ = det(small)
        return (small, d_) if d_ else None      # None: not reproducible in isolation
    return rep.finish(shrink_fn=shrink)

"""C14 - the Multistage RAM/DISK split changes only labels and minimises DISK
traffic. Metamorphic/differential over sibling configurations (same n,
trajectory and total unit count, different split)."""
from .. import configs as C
from .. import runner as R

RULE = ("cases = groups (n, trajectory, total units s) containing every split ram+disk=s; exhaustive box + Hypothesis draws; "
        "non-trivial member = ram>0 and disk>0 and at least two stack positions with different access counts; distinct = distinct (n, trajectory, ram, disk)")


def shape(t):
    if t[0] == "F":
        return ("F", t[1], t[2], t[3], t[4], "CP" if t[5] in ("RAM", "DISK") else t[5])
    if t[0] in ("C", "M"):
        return (t[0], t[1], "CP" if t[2] in ("RAM", "DISK") else t[2], "CP" if t[3] in ("RAM", "DISK") else t[3])
    return t


def _member(n, traj, ram, disk, style=None):
    from .. import monitor
    cfg = {"cls": "Multistage", "n": n, "ram": ram, "disk": disk, "traj": traj, "passes": 1}
    if style:
        cfg["style"] = style
    r = monitor.execute(cfg, want_trace=True)
    m = {"cfg": cfg, "viol": [], "status": r["status"], "nontrivial": False}
    if r["status"] == "inconclusive":
        return m, None
    if r["status"] != "ok" or not r.get("completed"):
        m["viol"].append(("stream-incomplete", "%s: no complete stream (%s)" % (C.describe(cfg), r.get("lib_exc") or r["viol"][:1])))
        return m, None
    tr = r["trace"]
    # own stack tracking
    stack = []
    label = {}
    w = {}
    dacc = 0
    for t in tr:
        if t[0] == "F" and t[3]:
            d = len(stack)
            stack.append(t[1])
            if label.setdefault(d, t[5]) != t[5]:
                m["viol"].append(("stack-position-relabelled", "%s: stack position %d written to %s after %s" % (C.describe(cfg), d, t[5], label[d])))
            w[d] = w.get(d, 0) + 1
            dacc += t[5] == "DISK"
        elif t[0] in ("C", "M") and t[3] == "WORK":
            if not stack or stack[-1] != t[1]:
                m["viol"].append(("not-a-stack", "%s: %s does not address the top of the checkpoint stack %s" % (C.describe(cfg), monitor.fmt(t), stack[-3:])))
                return m, tr
            d = len(stack) - 1
            if label.get(d) != t[2]:
                m["viol"].append(("stack-position-relabelled", "%s: stack position %d read from %s, written to %s" % (C.describe(cfg), d, t[2], label.get(d))))
            w[d] = w.get(d, 0) + 1
            dacc += t[2] == "DISK"
            if t[0] == "M":
                stack.pop()
    npos = len(label)
    k = min(ram, n - 1, npos)
    kact = sum(1 for v in label.values() if v == "RAM")
    total = sum(w.values())
    best = total - sum(sorted(w.values(), reverse=True)[:k])
    if kact > ram:
        m["viol"].append(("too-many-ram-positions", "%s: %d stack positions labelled RAM, %d declared" % (C.describe(cfg), kact, ram)))
    if dacc != best:
        m["viol"].append(("disk-traffic-not-minimal", "%s: %d DISK accesses; giving the %d most-used of %d stack positions to RAM leaves %d (per-position accesses %s, labels %s)" % (
            C.describe(cfg), dacc, k, npos, best, [w[i] for i in sorted(w)], [label[i] for i in sorted(label)])))
    ur, ud = r["usage"].get("RAM"), r["usage"].get("DISK")
    if (kact > 0 and not ur) or (npos - kact > 0 and not ud):
        m["viol"].append(("uses_storage_type-inconsistent", "%s: labels %s but uses_storage_type RAM=%r DISK=%r" % (C.describe(cfg), sorted(set(label.values())), ur, ud)))
    m["nontrivial"] = bool(ram and disk and len(set(w.values())) >= 2)
    m["digest"] = r["digest"]
    m["head"] = r["head"]
    m["dacc"] = dacc
    return m, tr


def _group(job):
    n, traj, s = job[:3]
    members = []
    ref = None
    splits = [(ram, s - ram) for ram in range(0, s + 1)]
    if len(job) > 3:                       # only the listed RAM counts (plus the two pure splits)
        splits = [(ram, s - ram) for ram in sorted(set(job[3]) | {0, s}) if 0 <= ram <= s]
    for ram, disk in splits:
        if n > 1 and ram + disk == 0:
            continue
        m, tr = _member(n, traj, ram, disk)
        if tr is not None:
            sh = [shape(t) for t in tr]
            if ref is None:
                ref = (sh, m["cfg"])
            elif sh != ref[0]:
                i = next((j for j in range(min(len(sh), len(ref[0]))) if sh[j] != ref[0][j]), -1)
                m["viol"].append(("split-changes-shape", "%s differs from %s beyond storage labels (first at action %d)" % (
                    C.describe(m["cfg"]), C.describe(ref[1]), i + 1)))
        members.append(m)
    return members


def _styled(job):
    """One member built in another call style (keywords in the documented / the reverse order, defaults
    omitted): the declared RAM and DISK counts are the same, so are the label and traffic predicates."""
    n, traj, ram, disk, style = job
    m, _ = _member(n, traj, ram, disk, style)
    return [m]


def _gen(job):
    tier, seed, count = job
    from hypothesis import strategies as st
    nmax = 120 if tier == "quick" else 400

    @st.composite
    def g(draw):
        n = draw(st.one_of(st.integers(26, 60), st.integers(26, nmax)))
        s = draw(st.one_of(st.integers(2, 8), st.integers(2, 8), st.integers(1, min(n + 1, 40))))
        return (n, draw(st.sampled_from(["maximum", "revolve"])), s)
    return sorted(set(C.generate(g(), count, seed)))


def check_witness(data, show=False):
    w = data["witness"]
    res = []
    if w.get("style"):
        m = _styled((w["n"], w["traj"], w["ram"], w["disk"], w["style"]))[0]
        seen = set()
        for pred, detail in m["viol"]:
            if pred not in seen:
                seen.add(pred)
                res.append((("Multistage", pred), m["cfg"], detail, "config"))
        return res
    tot = w["ram"] + w["disk"]
    job = (w["n"], w["traj"], tot) if tot <= 40 else (w["n"], w["traj"], tot, (w["ram"],))
    for m in _group(job):
        seen = set()
        for pred, detail in m["viol"]:
            if pred not in seen:
                seen.add(pred)
                res.append((("Multistage", pred), m["cfg"], detail, "config"))
    return res


def run(prop, args):
    rep = R.Report(prop, args, RULE)
    if args.replay:
        rep.evaluations = 1
        for b, w, d, k in check_witness(R.load_replay(args.replay)):
            rep.add_violation(b, w, d, kind=k)
        return rep.finish()
    tier = args.tier
    NB = 30 if tier == "quick" else 48
    jobs = [(n, tr, s) for n in range(1, NB + 1) for tr in ("maximum", "revolve") for s in range(0 if n == 1 else 1, n + 2)]
    # beyond the all-totals box: few units (where the ranking of stack positions decides), every split
    NB2, SB2 = (72, 8) if tier == "quick" else (160, 10)
    jobs += [(n, tr, s) for n in range(NB + 1, NB2 + 1) for tr in ("maximum", "revolve") for s in range(2, SB2 + 1)]
    # many units (more than 100 stack positions; almost store-all, so the streams are short)
    for n in ((103, 110, 130, 257) if tier == "quick" else (103, 110, 130, 200, 257, 300)):
        for tr in ("maximum", "revolve"):
            for sx in sorted({101, 102, n - 3, n - 2, n - 1}):
                if 2 <= sx <= n - 1:
                    jobs.append((n, tr, sx, (1, 2, sx // 2, sx - 1)))
    nbox = len(jobs)
    jobs += _gen((tier, args.seed, 60 if tier == "quick" else 1500))
    res = R.pmap(_group, jobs, chunksize=2)
    NS = 12 if tier == "quick" else 24
    sjobs = [(n, tr, ram, s - ram, st) for n in range(3, NS + 1) for tr in ("maximum", "revolve") for s in range(2, 6) for ram in range(1, s)
             for st in ("kw", "kwr", "pkr", "dflt")]
    res += R.pmap(_styled, sjobs, chunksize=8)
    rep.exhaustive = [{"box": "n<=%d, both trajectories, every total s in 1..n+1, every split of s; then n<=%d with totals 2..%d, every split" % (NB, NB2, SB2), "cases": nbox, "exhaustive": True},
                      {"box": "mixed splits built in other call styles (keywords in documented and in reverse order, first argument positional and the rest by keyword in reverse order, defaults omitted): n in 3..%d, totals 2..5, both trajectories" % (12 if tier == "quick" else 24), "cases": 0, "exhaustive": True}]
    rep.exhaustive[-1]["cases"] = len(sjobs)
    rep.extra["groups"] = len(jobs)
    for mem in res:
        for m in mem:
            rep.evaluations += 1
            if m["status"] == "inconclusive":
                rep.inconclusive += 1
                continue
            cfg = m["cfg"]
            rep.count("hist", cfg["traj"])
            if m["nontrivial"]:
                rep.nontrivial.add(C.chash(cfg))
                if len(rep.nontrivial) % 401 == 1:
                    rep.sample({"call": C.describe(cfg), "disk_accesses": m.get("dacc"), "stream_digest": m.get("digest"), "first_actions": m.get("head")})
            if cfg["n"] > 26:
                rep.count("regions", "n>26")
            seen = set()
            for pred, detail in m["viol"]:
                if pred not in seen:
                    seen.add(pred)
                    rep.add_violation(("Multistage", pred), cfg, detail)
    R.run_regress(rep, check_witness)
    rep.assumptions = ["'minimum over all ways of giving that many stack positions to RAM' computed as total accesses minus the sum of the k largest per-position access counts (tie-independent)",
                       "k = min(declared RAM units, n-1, stack positions actually used)"]

    def shrink(b, w):
        def gj(c):
            tot = c["ram"] + c["disk"]
            return (c["n"], c["traj"], tot) if tot <= 40 else (c["n"], c["traj"], tot, (c["ram"],))

        if w.get("style"):
            def fails_s(c):
                return any(p == b[1] for p, _ in _styled((c["n"], c["traj"], c["ram"], c["disk"], w["style"]))[0]["viol"])
            small = C.shrink(w, lambda c: c.get("style") == w["style"] and fails_s(c), budget=120)
            m = _styled((small["n"], small["traj"], small["ram"], small["disk"], w["style"]))[0]
            for p, d in m["viol"]:
                if p == b[1]:
                    return m["cfg"], d
            return None

        def fails(c):
            return any(p == b[1] for m in _group(gj(c)) if m["cfg"] == c or b[1] == "split-changes-shape" for p, _ in m["viol"])
        small = C.shrink(w, fails, budget=120)
        for m in _group(gj(small)):
            for p, d in m["viol"]:
                if p == b[1]:
                    return m["cfg"], d
        return None
    return rep.finish(shrink_fn=shrink)

"""C05 - binomial schedules perform the Griewank-Walther minimum of forward steps.

Oracle tiers (must agree with each other, else harness error, exit 2):
  (1) exhaustive search over all executable schedules (opt_binomial_search)
  (2) independent DP (dp_binomial)   (3) closed form (gw_extra)
Library side: Multistage (every RAM/DISK split, both trajectories), Revolve
(random positive dyadic costs), helper optimal_steps_binomial(n, s).
"""
from .. import configs as C
from .. import oracles as O
from .. import runner as R

RULE = ("cases = (class, n, s, split/trajectory/costs); exhaustive small box + Hypothesis draws; non-trivial = 1 < s < n-1 "
        "(neither shortcut of the step-size routine); distinct = distinct config hash. 'repetition>=3' counted in regions")


def _selfcheck(job):
    n, s = job
    a = O.opt_binomial_search(n, s)
    return (n, s, a, O.dp_binomial(n, s), O.gw_total(n, s))


def _case(cfg):
    from .. import monitor
    r = monitor.execute(cfg)
    n = cfg["n"]
    s = C.total_units(cfg) if cfg["cls"] == "Multistage" else cfg["s"]
    out = {"cfg": cfg, "n": n, "s": s, "status": r["status"], "viol": []}
    if r["status"] == "inconclusive":
        return out
    if r["status"] != "ok" or not r.get("completed"):
        out["viol"].append(("stream-incomplete", "%s: no complete stream (%s)" % (C.describe(cfg), r.get("lib_exc") or [v for v in r["viol"]][:1])))
        return out
    want = O.gw_total(n, s) if n > 1 else 1
    out["steps"] = r["fsteps"]
    out["want"] = want
    out["digest"] = r["digest"]
    out["head"] = r["head"]
    if r["fsteps"] != want:
        out["viol"].append(("steps-not-optimal", "%s advances %d forward steps, Griewank-Walther optimum is %d" % (C.describe(cfg), r["fsteps"], want)))
    return out


def _helper(job):
    n, s = job
    from .. import lib
    try:
        got = lib.quiet(lib.cs_multistage.optimal_steps_binomial, n, s)
    except Exception as e:
        return (n, s, "raise %s: %s" % (type(e).__name__, e), O.gw_total(n, s))
    return (n, s, int(got), O.gw_total(n, s))


def _T(m, s):
    """Optimal total forward steps for m steps with s free units (closed form); T(1, 0) = 1."""
    if m == 1:
        return 1
    if s < 1:
        return float("inf")
    return O.gw_total(m, s)


def _advance_scan(job):
    """Dense, cheap search for sub-problems (n, s, trajectory) whose step size is not locally
    optimal: d = n_advance(n, s) must satisfy d + T(n-d, s-1) + T(d, s) == T(n, s). A step-size
    rule's defects are sparse in (n, s); every candidate is then CONFIRMED by running the stream."""
    lo, hi, S = job
    from .. import lib
    na = lib.cs_multistage.n_advance
    out = []
    cnt = 0
    for n in range(lo, hi + 1):
        for sx in range(1, min(S, n - 1) + 1):
            for tr in ("maximum", "revolve"):
                cnt += 1
                try:
                    d = int(lib.quiet(na, n, sx, trajectory=tr))
                except Exception:
                    out.append((n, sx, tr))
                    continue
                if not (1 <= d <= n - 1) or d + _T(n - d, sx - 1) + _T(d, sx) != _T(n, sx):
                    out.append((n, sx, tr))
    return cnt, out


PROBE_N = (257, 258, 259, 300, 301)
PROBE_S = (1, 4, 43, 44, 255, 256, 257, 260, 299, 300)


def probe_pairs():
    """Ordered boundary probes (255/256/257 for n AND for the unit count), ascending unit count."""
    return [[n, s] for s in PROBE_S for n in PROBE_N if s <= n + 1]


def seq_probe(payload):
    """Runs in a pristine interpreter: helper + Multistage (+ Revolve for few units) per pair, in order."""
    out = []
    for n, s in payload["pairs"]:
        v = []
        hn, hs, got, want = _helper((n, s))
        if got != want:
            v.append(["optimal_steps_binomial", None, "optimal_steps_binomial(%d,%d)=%r, optimum %d" % (n, s, got, want)])
        cfgs = [{"cls": "Multistage", "n": n, "ram": s, "disk": 0, "traj": "maximum", "passes": 1},
                {"cls": "Multistage", "n": n, "ram": 1, "disk": s - 1, "traj": "revolve", "passes": 1}]
        if s <= 44:
            cfgs.append({"cls": "Revolve", "n": n, "s": s, "c8": [8, 16, 16, 16], "passes": 1})
        for cfg in cfgs:
            if cfg["cls"] == "Multistage" and cfg["disk"] < 0:
                continue
            o = _case(cfg)
            for pred, detail in o["viol"]:
                v.append([pred, cfg, detail])
        out.append({"n": n, "s": s, "viol": v})
    return out


def seq_cases(payload):
    """(in a pristine child) several schedules of equal size, built and run in order in ONE process."""
    return [_case(c) for c in payload["cfgs"]]


def _seq_chunk(seqs):
    from .. import forkserver
    cl = forkserver.client()
    return [(seq, cl.call("vlib.props.c05.seq_cases", {"cfgs": seq})) for seq in seqs]


def cost_sibling_sequences(tier):
    """Revolve schedules of one size with different cost vectors, one after the other in one
    pristine process (tables cached per size would leak the previous costs)."""
    N = 16 if tier == "quick" else 30
    vecs = ([8, 8, 16, 16], [32, 8, 16, 16], [8, 40, 0, 0], [4, 8, 16, 16])
    for n in range(3, N + 1):
        for sx in range(1, min(n, 6)):
            yield [{"cls": "Revolve", "n": n, "s": sx, "c8": list(v), "passes": 1} for v in vecs]


def _gen(job):
    tier, seed, shard, count = job
    from hypothesis import strategies as st
    nmax = 64 if tier == "quick" else 400

    @st.composite
    def cfgs(draw):
        n = draw(st.one_of(st.integers(3, 20), st.integers(3, 64), st.integers(3, nmax)))
        # bias s into the interior 2..n-2 and to small counts (large repetition number)
        s = draw(st.one_of(st.integers(2, max(2, min(6, n - 2))), st.integers(1, n + 1), st.integers(2, max(2, n - 2))))
        if draw(st.integers(0, 2)) == 0:
            return C.tame_period({"cls": "Revolve", "n": n, "s": s, "c8": draw(S["_c8"]), "passes": 1})
        ram = draw(st.integers(0, s))
        return {"cls": "Multistage", "n": n, "ram": ram, "disk": s - ram,
                "traj": draw(st.sampled_from(["maximum", "revolve"])), "passes": 1}
    S = C.strategies(tier)
    return [_case(c) for c in C.generate(cfgs(), count, seed * 1000 + shard)]


def _box(tier):
    N = 14 if tier == "quick" else 26
    for n in range(1, N + 1):
        for s in range(0 if n == 1 else 1, n + 2):
            for ram in range(0, s + 1):
                for tr in ("maximum", "revolve"):
                    yield {"cls": "Multistage", "n": n, "ram": ram, "disk": s - ram, "traj": tr, "passes": 1}
            if s >= 1:
                for c8 in ([8, 8, 16, 16], [8, 40, 16, 16], [24, 8, 0, 0]):
                    yield {"cls": "Revolve", "n": n, "s": s, "c8": c8, "passes": 1}
    # extreme cost ratios (ub/uf and uf/ub of 2**30): relative tolerances, lost low-order bits
    for n in (4, 7, 12, 20, 30, 48, 64):
        for s in (2, 3, 5):
            yield {"cls": "Revolve", "n": n, "s": s, "c8": [1, 1 << 30, 16, 16], "passes": 1}
            yield {"cls": "Revolve", "n": n, "s": s, "c8": [1 << 30, 1, 16, 16], "passes": 1}
    # the same Revolve problems in other cost units (x 2**40, x 2**-40: exact rescalings)
    for n in (4, 7, 12, 20, 30, 48):
        for s in (1, 2, 3, 5):
            yield {"cls": "Revolve", "n": n, "s": s, "c8": [8 << 40, 16 << 40, 16 << 40, 16 << 40], "passes": 1}
            yield {"cls": "Revolve", "n": n, "s": s, "c8": [8, 16, 16, 16], "den": 8 << 40, "passes": 1}
            yield {"cls": "Revolve", "n": n, "s": s, "c8": [3, 10, 9, 11], "den": 10, "passes": 1}
    # dense (n, s) grid beyond the all-splits box: defects of a step-size rule or a DP are sparse in (n, s)
    N2 = 64 if tier == "quick" else 150
    for n in range(N + 1, N2 + 1):
        for s in range(1, n + 1):
            for ram, disk in ((s, 0), (0, s), (1, s - 1)):
                if disk < 0 or (ram, disk) == (1, 0) and s != 1:
                    continue
                for tr in ("maximum", "revolve"):
                    yield {"cls": "Multistage", "n": n, "ram": ram, "disk": disk, "traj": tr, "passes": 1}
            for c8 in ([8, 8, 16, 16], [32, 8, 16, 16]):
                yield {"cls": "Revolve", "n": n, "s": s, "c8": c8, "passes": 1}


def check_witness(data, show=False):
    w = data["witness"]
    if data.get("kind") == "cfg-sequence" or (isinstance(w, dict) and "cfgs" in w):
        outs = R.pristine_call("vlib.props.c05.seq_cases", {"cfgs": w["cfgs"]})
        if show:
            print("replaying in one fresh process: " + " ; then ".join(C.describe(c) for c in w["cfgs"]))
        return [((C.variant(outs[-1]["cfg"]), p), w, d + " [after %s in the same process]" % C.describe(w["cfgs"][-2]), "cfg-sequence") for p, d in outs[-1]["viol"]]
    if data.get("kind") == "sequence":
        res = R.pristine_call("vlib.props.c05.seq_probe", {"pairs": w["sequence"]})
        last = res[-1] if res else {"viol": []}
        return [((C.variant(c) if c else "helper", p), w, d + " [after the earlier calls of the sequence, in one process]", "sequence") for p, c, d in last["viol"]]
    if data.get("kind") == "helper":
        n, s, got, want = _helper((w["n"], w["s"]))
        if show:
            print("optimal_steps_binomial(%d,%d) = %r, closed form %d" % (n, s, got, want))
        if got != want:
            return [(("helper", "optimal_steps_binomial"), w, "optimal_steps_binomial(%d,%d)=%r, optimum %d" % (n, s, got, want), "helper")]
        return []
    out = _case(w)
    if show:
        print("replaying %s: steps=%s optimum=%s" % (C.describe(w), out.get("steps"), out.get("want")))
    return [((C.variant(w), pred), w, detail, "config") for pred, detail in out["viol"]]


def run(prop, args):
    rep = R.Report(prop, args, RULE)
    if args.replay:
        rep.evaluations = 1
        for b, w, d, k in check_witness(R.load_replay(args.replay), show=True):
            rep.add_violation(b, w, d, kind=k)
        return rep.finish()
    tier = args.tier
    # (1) oracle self-validation on the full small range
    NS = 8 if tier == "quick" else 11
    sc = R.pmap(_selfcheck, [(n, s) for n in range(2, NS + 1) for s in range(1, n)])
    bad = [x for x in sc if not (x[2] == x[3] == x[4])]
    if bad:
        R.harness_error("binomial oracles disagree (search, dp, closed form): %s" % bad[:5])
    NC = 60 if tier == "quick" else 160
    for n in range(2, NC + 1):
        for s in range(1, n):
            if O.dp_binomial(n, s) != O.gw_total(n, s):
                R.harness_error("dp_binomial != closed form at n=%d s=%d" % (n, s))
    rep.extra["oracle_selfcheck"] = {"search_vs_dp_vs_closed_form": len(sc), "search_n_max": NS,
                                     "dp_vs_closed_form_instances": sum(n - 1 for n in range(2, NC + 1))}
    # (2) library streams
    probe = R.pristine_start("vlib.props.c05.seq_probe", {"pairs": probe_pairs()})
    box = list(_box(tier))
    NA, SA = (1600, 16) if tier == "quick" else (6000, 40)
    scan = R.pmap(_advance_scan, [(lo, min(lo + 49, NA), SA) for lo in range(2, NA + 1, 50)], chunksize=1)
    cands = sorted(set(c for _, part in scan for c in part))
    rep.extra["step_size_scan"] = {"sub_problems": sum(c for c, _ in scan), "n_max": NA, "s_max": SA, "candidates_confirmed_by_stream": len(cands)}
    for (n, sx, tr) in cands[:300]:
        box.append({"cls": "Multistage", "n": n, "ram": 0, "disk": sx, "traj": tr, "passes": 1})
        box.append({"cls": "Multistage", "n": n, "ram": sx, "disk": 0, "traj": tr, "passes": 1})
    res = R.pmap(_case, box)
    count, shards = (90, 16) if tier == "quick" else (1500, 16)
    gen = [x for part in R.pmap(_gen, [(tier, args.seed, k, count) for k in range(shards)], chunksize=1) for x in part]
    rep.exhaustive = [{"box": "Multistage n<=%d every s in 0..n+1, every RAM/DISK split, both trajectories; Revolve n<=%d every s, 3 cost vectors; "
                       "then every (n, s) up to n=%d with splits (s,0),(0,s),(1,s-1), both trajectories, Revolve with 2 cost vectors" % (
                           (14, 14, 64) if tier == "quick" else (26, 26, 150)), "cases": len(box), "exhaustive": True}]
    for out in res + gen:
        cfg = out["cfg"]
        rep.evaluations += 1
        if out["status"] == "inconclusive":
            rep.inconclusive += 1
            continue
        rep.count("hist", C.variant(cfg))
        n, s = out["n"], out["s"]
        if 1 < s < n - 1:
            rep.nontrivial.add(C.chash(cfg))
            if O.gw_repetition(n, s) >= 3:
                rep.count("regions", "repetition>=3")
            if len(rep.nontrivial) % 211 == 1:
                rep.sample({"call": C.describe(cfg), "forward_steps": out.get("steps"), "gw_optimum": out.get("want"),
                            "stream_digest": out.get("digest"), "first_actions": out.get("head")})
        if cfg["cls"] == "Multistage" and cfg["ram"] and cfg["disk"]:
            rep.count("regions", "multistage:ram+disk")
        if cfg["cls"] == "Revolve" and cfg["c8"][0] != cfg["c8"][1]:
            rep.count("regions", "revolve:uf!=ub")
        for pred, detail in out["viol"]:
            rep.add_violation((C.variant(cfg), pred), cfg, detail)
    # (3) the published helper, incl. s > n-1
    NH = 40 if tier == "quick" else 120
    jobs = [(n, s) for n in range(1, NH + 1) for s in range(min(1, n - 1), n + 3)]
    hres = R.pmap(_helper, jobs, chunksize=64)
    for n, s, got, want in hres:
        rep.evaluations += 1
        if 1 < s < n - 1:
            rep.nontrivial.add("helper:%d:%d" % (n, s))
        if got != want:
            rep.add_violation(("helper", "optimal_steps_binomial"), {"n": n, "s": s},
                              "optimal_steps_binomial(%d,%d)=%r, optimum %d" % (n, s, got, want), kind="helper")
    rep.extra["helper_calls"] = len(hres)
    seqs = list(cost_sibling_sequences(tier))
    for part in R.pmap(_seq_chunk, R.chunks(seqs, 32), chunksize=1):
        for seq, outs in part:
            for i, out in enumerate(outs):
                rep.evaluations += 1
                for pred, detail in out["viol"]:
                    if i == 0:
                        rep.add_violation((C.variant(out["cfg"]), pred), out["cfg"], detail)
                    else:
                        rep.add_violation((C.variant(out["cfg"]), pred), {"cfgs": seq[:i + 1]},
                                          detail + " [after %s in the same process]" % C.describe(seq[i - 1]), kind="cfg-sequence")
    rep.extra["cost_sibling_sequences"] = len(seqs)
    pres = R.pristine_wait(probe)
    rep.extra["boundary_probe_sequence"] = {"pairs": len(pres), "n": list(PROBE_N), "s": list(PROBE_S)}
    seen_seq = set()
    for i, o in enumerate(pres):
        rep.evaluations += 3
        rep.count("regions", "n>=257")
        if 1 < o["s"] < o["n"] - 1:
            rep.nontrivial.add("probe:%d:%d" % (o["n"], o["s"]))
        for pred, cfg, detail in o["viol"]:
            b = (C.variant(cfg) if cfg else "helper", pred)
            if b not in seen_seq:
                seen_seq.add(b)
                rep.add_violation(b, {"sequence": probe_pairs()[:i + 1]}, detail + " [after the earlier calls of the sequence, in one process]", kind="sequence")
    R.run_regress(rep, check_witness)
    rep.sample({"helper": "optimal_steps_binomial(30,3)", "closed_form": O.gw_total(30, 3)})
    rep.assumptions = ["true optimum established by exhaustive search only for n<=%d; beyond that by DP/closed form validated against the search on that range" % NS,
                       "stream cost model of DESIGN 2.4: forward steps = sum of (min(n1,n)-n0) over Forward actions"]

    def shrink(b, w):
        if "cfgs" in w:
            solo = R.pristine_call("vlib.props.c05.seq_cases", {"cfgs": [w["cfgs"][-1]]})
            d = [d for p, d in solo[0]["viol"] if p == b[1]]
            if d:
                return w["cfgs"][-1], d[0]
            for i in range(len(w["cfgs"]) - 1):
                cand = [w["cfgs"][i], w["cfgs"][-1]]
                o = R.pristine_call("vlib.props.c05.seq_cases", {"cfgs": cand})
                d = [d for p, d in o[-1]["viol"] if p == b[1]]
                if d:
                    return {"cfgs": cand}, d[0] + " [after %s in the same process]" % C.describe(cand[0])
            return None
        if "sequence" in w:
            seq = w["sequence"]
            for cand in ([seq[-1]], seq[-2:], seq):
                r = R.pristine_call("vlib.props.c05.seq_probe", {"pairs": cand})
                d = [d for p, c, d in r[-1]["viol"] if p == b[1]]
                if d:
                    return {"sequence": cand}, d[0] + (" [after the earlier calls of the sequence, in one process]" if len(cand) > 1 else "")
            return None
        if b[0] == "helper":
            return None
        small = C.shrink(w, lambda c: any(p == b[1] for p, _ in _case(c)["viol"]))
        d = [d for p, d in _case(small)["viol"] if p == b[1]]
        return (small, d[0]) if d else None      # None: not reproducible in isolation
    return rep.finish(shrink_fn=shrink)

"""C15 - a schedule's stream depends only on its own parameters.

Model-based stateful testing: a Hypothesis RuleBasedStateMachine keeps up to 6
live schedule objects, interleaves their advancement, reads all observers
between actions, calls the public helper functions (process-global memo
tables) with unrelated arguments, and compares every object's recorded stream
with the GOLDEN stream of the same config produced in a fresh interpreter
(vlib/golden.py: a pristine parent process fork()s one child per config).
"""
import gc
import json
import os
import subprocess
import sys

from .. import configs as C
from .. import runner as R
from ..golden import StreamRunner

RULE = ("cases = histories of create(config) / create_same / create_variant (sibling with ONE parameter changed) / advance(object, k actions) / observe(object) / poke_memo(fn, n, s) / finish(object) over up to 6 live objects; "
        "oracle = stream produced for the same config in a fresh interpreter; non-trivial = history in which two objects whose classes share module-level state "
        "(two of Multistage/Mixed/TwoLevel, or two of the Revolve family) are alive at once and their advancement is interleaved, or an ordered sibling pair (two configs of one such class "
        "differing in exactly one parameter, run in one pristine process in both orders of use); distinct = distinct operation sequence / distinct ordered pair")

SHARE_A = ("Multistage", "Mixed", "TwoLevel")
SHARE_B = C.REVOLVE_FAMILY


class Violation(Exception):
    def __init__(self, pred, detail, cfg):
        super().__init__("%s: %s" % (pred, detail))
        self.pred, self.detail, self.cfg = pred, detail, cfg


class Golden:
    """Client of the fresh-interpreter golden server (one per worker process)."""

    def __init__(self, **envover):
        env = dict(os.environ)
        env["PYTHONPATH"] = R.VERIF + os.pathsep + env.get("PYTHONPATH", "")
        env.update(envover)
        self.p = subprocess.Popen([sys.executable, "-m", "vlib.golden"], stdin=subprocess.PIPE, stdout=subprocess.PIPE,
                                  cwd=R.VERIF, env=env, text=True, bufsize=1)
        self.cache = {}

    def get(self, cfg):
        k = C.key(cfg)
        if k not in self.cache:
            self.p.stdin.write(k + "\n")
            self.p.stdin.flush()
            line = self.p.stdout.readline()
            if not line:
                raise RuntimeError("golden server died")
            ans = json.loads(line)
            if "error" in ans:
                raise RuntimeError("golden server error for %s: %s" % (k, ans["error"]))
            self.cache[k] = [tuple(t) for t in ans["stream"]]
        return self.cache[k]

    def close(self):
        try:
            self.p.stdin.close()
            self.p.wait(timeout=10)
        except Exception:
            self.p.kill()


def golden_once(cfg):
    env = dict(os.environ)
    env["PYTHONPATH"] = R.VERIF + os.pathsep + env.get("PYTHONPATH", "")
    out = subprocess.run([sys.executable, "-m", "vlib.golden", "--one"], input=C.key(cfg), capture_output=True, text=True, cwd=R.VERIF, env=env)
    ans = json.loads(out.stdout.strip().splitlines()[-1])
    if "error" in ans:
        raise RuntimeError(ans["error"])
    return [tuple(t) for t in ans["stream"]]


POKES = ("optimal_steps_binomial", "optimal_extra_steps", "optimal_steps_mixed", "mixed_step_memoization", "n_advance", "revolve_seq", "hrevolve_seq")


def siblings(cfg):
    """All valid configs that differ from cfg in exactly one parameter: [(field, config)]."""
    c0 = dict(cfg)
    opts = []
    if "traj" in c0:
        opts.append(("traj", "revolve" if c0["traj"] == "maximum" else "maximum"))
    if "storage" in c0:
        opts.append(("storage", "RAM" if c0["storage"] == "DISK" else "DISK"))
    if "move" in c0:
        opts.append(("move", not c0["move"]))
    if c0["cls"] in ("Revolve", "DiskRevolve", "PeriodicDiskRevolve"):
        for other in ("Revolve", "DiskRevolve", "PeriodicDiskRevolve"):
            if other != c0["cls"]:
                opts.append(("cls", other))      # equal parameters, sibling class with the same signature
    for k, lo in (("s", 1), ("d", 0), ("ram", 0), ("disk", 0), ("b", 0), ("period", 1)):
        if k in c0:
            opts.append((k, c0[k] + 1))
            if c0[k] - 1 >= lo:
                opts.append((k, c0[k] - 1))
    opts.append(("n", c0["n"] + 1))
    if c0["n"] > 1:
        opts.append(("n", c0["n"] - 1))
    if "c8" in c0:
        for i in range(4):
            v = list(c0["c8"])
            v[i] = v[i] * 2 if v[i] else 8
            opts.append(("c8", v))
        opts.append(("c8", [2 * x for x in c0["c8"]]))      # the whole cost vector rescaled (same schedule, other units)
        for i in range(4):
            if c0["c8"][i] >= 2 and c0["c8"][i] % 2 == 0:
                v = list(c0["c8"])
                v[i] //= 2                                    # and one cost halved (a table built for a LARGER cost comes first)
                opts.append(("c8", v))
        for i in (0, 1):                                      # a step cost changed by a large factor, both directions
            v = list(c0["c8"])
            v[i] *= 8
            opts.append(("c8", v))
            if c0["c8"][i] >= 8:
                v = list(c0["c8"])
                v[i] //= 8
                opts.append(("c8", v))
    out = []
    for k, v in opts:
        c = dict(c0)
        c[k] = v
        if c.get("cls") == "SingleDisk" and c.get("move"):
            c["passes"] = 1
        if not C.valid(c):
            continue
        out.append((k, C.tame_period(c)))
    return out


class World:
    """System under test: several live schedules in ONE process. Runs in a
    child forked per history from a pristine worker, so a history is a pure
    function of its operation list (and replays identically)."""

    def __init__(self):
        from .. import lib
        self.lib = lib
        self.objs = []       # [cfg, StreamRunner, finished]
        self.last_advanced = None
        self.interleaved_sharing = False
        self.max_live = 0
        self.finished = []   # (cfg, stream, done) not yet reported

    def live(self):
        return [i for i, o in enumerate(self.objs) if not o[2]]

    def create(self, cfg):
        try:
            r = StreamRunner(cfg)
        except Exception:
            return          # a constructor that raises is C17's subject, not C15's
        self.objs.append([cfg, r, False])
        self.max_live = max(self.max_live, len(self.live()))

    def create_same(self, sel):
        if self.objs:
            self.create(dict(self.objs[sel % len(self.objs)][0]))

    def create_variant(self, sel, field):
        """A sibling of an existing object: same class, ONE parameter changed
        (the shape that exposes memo tables keyed on too little)."""
        if not self.objs:
            return
        opts = siblings(self.objs[sel % len(self.objs)][0])
        cat = [o for o in opts if o[0] in ("traj", "storage", "move", "cls")]
        num = [o for o in opts if o[0] not in ("traj", "storage", "move", "cls")]
        if field % 2 == 0 and cat:       # half of the siblings differ in a categorical parameter only
            c = cat[(field // 2) % len(cat)][1]
        elif num:
            c = num[(field // 2) % len(num)][1]
        else:
            return
        self.create(c)

    def _pick(self, sel):
        lv = self.live()
        return lv[sel % len(lv)] if lv else None

    def advance(self, sel, count):
        i = self._pick(sel)
        if i is None:
            return
        cfg, r, _ = self.objs[i]
        if self.last_advanced is not None and self.last_advanced != i and not self.objs[self.last_advanced][2]:
            a, b = cfg["cls"], self.objs[self.last_advanced][0]["cls"]
            if (a in SHARE_A and b in SHARE_A) or (a in SHARE_B and b in SHARE_B):
                self.interleaved_sharing = True
        self.last_advanced = i
        for _ in range(count):
            if r.step() is None:
                break
        if r.done:
            self.finish_obj(i)

    def observe(self, sel):
        i = self._pick(sel)
        if i is None:
            return
        s = self.objs[i][1].sched
        ST = self.lib.ST
        for name in ("n", "r", "max_n", "is_exhausted", "is_running"):
            try:
                getattr(s, name)
            except Exception:
                pass
        for t in (ST.RAM, ST.DISK, ST.WORK, ST.NONE):
            try:
                s.uses_storage_type(t)
            except Exception:
                pass

    def poke(self, which, n, s):
        lib = self.lib
        name = POKES[which % len(POKES)]
        s = max(min(s, n - 1), min(1, n - 1))
        try:
            if name == "optimal_steps_binomial":
                lib.quiet(lib.cs_multistage.optimal_steps_binomial, n, s)
            elif name == "optimal_extra_steps":
                lib.quiet(lib.cs_multistage.optimal_extra_steps, n, s)
            elif name == "optimal_steps_mixed":
                lib.quiet(lib.cs_mixed.optimal_steps_mixed, n, s)
            elif name == "mixed_step_memoization":
                lib.quiet(lib.cs_mixed.mixed_step_memoization, n, s)
            elif name == "n_advance":
                lib.quiet(lib.cs_multistage.n_advance, n, max(s, 1), trajectory="revolve" if n % 2 else "maximum")
            elif name == "revolve_seq":
                from checkpoint_schedules.hrevolve_sequences import revolve
                lib.quiet(lambda: list(revolve(max(n - 1, 0), max(s, 1), 2, 2, 1, 1)))
            elif name == "hrevolve_seq":
                from checkpoint_schedules.hrevolve_sequences import hrevolve
                lib.quiet(lambda: list(hrevolve(max(n - 1, 0), (max(s, 1), 1), [0, 2], [0, 2], 1, 1)))
        except Exception:
            pass   # helper failures are not C15's subject

    def finish(self, sel):
        i = self._pick(sel)
        if i is not None:
            self.finish_obj(i)

    def finish_obj(self, i):
        cfg, r, done = self.objs[i]
        if done:
            return
        self.objs[i][2] = True
        self.finished.append((cfg, list(r.stream), r.done))
        # the driver drops a schedule it is done with (finished or abandoned half-way): the object is
        # freed, its id() and memory can be reused by the next schedule, weak references to it die
        self.objs[i][1] = None
        del r
        gc.collect()

    def finish_all(self):
        for i in list(self.live()):
            self.finish_obj(i)

    def apply(self, op):
        k = op[0]
        if k == "create":
            self.create(op[1])
        elif k == "create_same":
            self.create_same(op[1])
        elif k == "create_variant":
            self.create_variant(op[1], op[2])
        elif k == "adv":
            self.advance(op[1], op[2])
        elif k == "obs":
            self.observe(op[1])
        elif k == "poke":
            self.poke(op[1], op[2], op[3])
        elif k == "finish":
            self.finish(op[1])
        elif k == "finish_all":
            self.finish_all()
        fin, self.finished = self.finished, []
        return {"live": len(self.live()), "objs": len(self.objs), "finished": fin, "nt": self.interleaved_sharing, "max_live": self.max_live,
                "classes": sorted(set(o[0]["cls"] for o in self.objs))}


class Child:
    """A World living in a child process forked from the (pristine) caller."""

    def __init__(self):
        import pickle
        self.pickle = pickle
        r1, w1 = os.pipe()
        r2, w2 = os.pipe()
        pid = os.fork()
        if pid == 0:
            os.close(w1)
            os.close(r2)
            fin, fout = os.fdopen(r1, "rb"), os.fdopen(w2, "wb")
            try:
                gc.freeze()       # what the parent allocated is not this history's business: collections stay cheap
                world = World()
                while True:
                    try:
                        op = pickle.load(fin)
                    except EOFError:
                        break
                    try:
                        ans = world.apply(op)
                    except BaseException as e:   # harness bug in the child: report, do not hang
                        import traceback
                        ans = {"harness_error": traceback.format_exc()}
                    pickle.dump(ans, fout)
                    fout.flush()
            finally:
                os._exit(0)
        os.close(r1)
        os.close(w2)
        self.pid = pid
        self.fout, self.fin = os.fdopen(w1, "wb"), os.fdopen(r2, "rb")

    def call(self, op):
        self.pickle.dump(op, self.fout)
        self.fout.flush()
        ans = self.pickle.load(self.fin)
        if "harness_error" in ans:
            raise RuntimeError("child World failed:\n" + ans["harness_error"])
        return ans

    def close(self):
        try:
            self.fout.close()
            self.fin.close()
        except Exception:
            pass
        try:
            os.waitpid(self.pid, 0)
        except Exception:
            pass


class Session:
    """Parent side of one history: forwards operations to the child World and
    compares every finished stream with the golden stream."""

    def __init__(self, golden_fn):
        from .. import lib
        self.lib = lib
        self.golden_fn = golden_fn
        self.child = Child()
        self.ops = []
        self.state = {"live": 0, "objs": 0, "nt": False, "max_live": 0, "classes": []}
        self.compared = 0

    def do(self, op):
        self.ops.append(list(op))
        ans = self.child.call(op)
        self.state = ans
        for cfg, got, done in ans["finished"]:
            self.compare(cfg, [tuple(t) for t in got], done)

    def compare(self, cfg, got, done):
        gold = self.golden_fn(cfg)
        self.compared += 1
        if got != gold[:len(got)] or (done and len(got) != len(gold)):
            j = next((k for k in range(min(len(got), len(gold))) if got[k] != gold[k]), min(len(got), len(gold)))
            raise Violation("stream-differs-from-fresh-interpreter", "%s: action %d is %s here, %s in a fresh interpreter (%d vs %d actions)" % (
                C.describe(cfg), j + 1, _f(self.lib, got[j]) if j < len(got) else "<end>", _f(self.lib, gold[j]) if j < len(gold) else "<end>", len(got), len(gold)), cfg)

    def close(self):
        self.child.close()


def _f(lib, t):
    if t[0] in ("STOP", "RAISE", "FINALIZE-RAISE", "CAP"):
        return "/".join(map(str, t))
    return lib.fmt(t)


def config_strategy():
    from hypothesis import strategies as st
    S = C.strategies("quick")

    def small(c):
        # keep streams short enough to finish inside a history
        c = dict(c)
        c["n"] = 1 + (c["n"] - 1) % 40
        for k in ("s", "d", "ram", "disk"):
            if k in c:
                c[k] = min(c[k], 6)
        if c["cls"] == "Multistage" and c["n"] > 1 and c["ram"] + c["disk"] == 0:
            c["ram"] = 1
        if c["cls"] == "Multistage" and c["n"] > 2 and c["n"] % 3 and (c["ram"] == 0 or c["disk"] == 0):
            # two thirds of the Multistage objects take the RAM+DISK path (allocation dry run)
            c["ram"], c["disk"] = max(c["ram"], 1), max(c["disk"], 1)
        if c["cls"] == "PeriodicDiskRevolve":
            c = C.tame_period(c)
        return c

    def late(c):
        # online classes: the driver may have requested 1-3 further Forward actions before finalize(n)
        if c["cls"] in ("None", "SingleMemory", "SingleDisk", "TwoLevel"):
            return st.sampled_from([0, 0, 1, 2, 3]).map(lambda k: dict(c, late=k) if k else c)
        return st.just(c)
    names = ["Multistage"] * 4 + ["Mixed"] * 4 + ["TwoLevel"] * 4 + ["Revolve"] * 2 + ["DiskRevolve"] * 3 + ["PeriodicDiskRevolve"] * 2 + ["HRevolve"] * 4 + \
        ["SingleMemory", "SingleDisk", "None"]
    return st.integers(0, len(names) - 1).flatmap(lambda i: S[names[i]]).map(small).flatmap(late)


_STATS = []
_LAST_FAIL = [None]
_GOLD = [None]


def make_machine():
    from hypothesis import strategies as st
    from hypothesis.stateful import RuleBasedStateMachine, rule, initialize, precondition

    class Interleave(RuleBasedStateMachine):
        def __init__(self):
            super().__init__()
            self.w = Session(_GOLD[0].get)
            self.closed = False

        def _do(self, *op):
            try:
                self.w.do(list(op))
            except Violation as v:
                _LAST_FAIL[0] = {"ops": json.loads(json.dumps(self.w.ops)), "pred": v.pred, "detail": v.detail, "variant": C.variant(v.cfg)}
                raise

        @initialize(c1=config_strategy(), c2=config_strategy())
        def init(self, c1, c2):
            self._do("create", c1)
            self._do("create", c2)

        @precondition(lambda self: self.w.state["live"] < 6)
        @rule(cfg=config_strategy())
        def create(self, cfg):
            self._do("create", cfg)

        @precondition(lambda self: self.w.state["live"] < 6 and self.w.state["objs"] > 0)
        @rule(sel=st.integers(0, 5))
        def create_same(self, sel):
            self._do("create_same", sel)

        @precondition(lambda self: self.w.state["live"] < 6 and self.w.state["objs"] > 0)
        @rule(sel=st.integers(0, 5), field=st.integers(0, 15))
        def create_variant(self, sel, field):
            self._do("create_variant", sel, field)

        @rule(sel=st.integers(0, 5), count=st.integers(1, 30))
        def advance(self, sel, count):
            self._do("adv", sel, count)

        @rule(sel=st.integers(0, 5))
        def observe(self, sel):
            self._do("obs", sel)

        @rule(which=st.integers(0, len(POKES) - 1), n=st.integers(1, 40), s=st.integers(0, 8))
        def poke(self, which, n, s):
            self._do("poke", which, n, s)

        @rule(sel=st.integers(0, 5))
        def finish(self, sel):
            self._do("finish", sel)

        def teardown(self):
            try:
                self._do("finish_all")
            finally:
                st_ = self.w.state
                _STATS.append({"ops": len(self.w.ops), "objs": st_["objs"], "max_live": st_["max_live"], "nt": st_["nt"],
                               "compared": self.w.compared, "key": json.dumps(self.w.ops, sort_keys=True), "classes": st_["classes"]})
                self.w.close()
    return Interleave


def replay_ops(ops, golden_fn=None):
    w = Session(golden_fn or golden_once)
    try:
        for op in ops:
            w.do(list(op))
        if not ops or ops[-1][0] != "finish_all":
            w.do(["finish_all"])
    except Violation as v:
        return v.pred, v.detail, C.variant(v.cfg)
    finally:
        w.close()
    return None


def _shard(job):
    tier, seed, shard, examples, steps = job
    import hypothesis
    from hypothesis import settings, HealthCheck, Phase
    from hypothesis.stateful import run_state_machine_as_test
    _STATS.clear()
    _LAST_FAIL[0] = None
    _GOLD[0] = Golden()
    fail = None
    try:
        try:
            run_state_machine_as_test(hypothesis.seed(seed * 1000 + shard)(make_machine()), settings=settings(
                max_examples=examples, stateful_step_count=steps, deadline=None, database=None, derandomize=False,
                suppress_health_check=list(HealthCheck), report_multiple_bugs=False,
                phases=[Phase.generate], print_blob=False))
        except Violation:
            fail = _LAST_FAIL[0]
        except Exception:
            # Hypothesis may wrap a violation it could not reproduce identically (Flaky): a
            # recorded violation is still a violation; its recorded history is replayed below.
            if _LAST_FAIL[0] is None:
                import hypothesis.errors as HE
                import sys as _sys
                if isinstance(_sys.exc_info()[1], (HE.Flaky, getattr(HE, "FlakyStrategyDefinition", HE.Flaky))):
                    # the SAME history behaved differently in two children (e.g. the number of live
                    # schedules differed): no violation was recorded, so nothing is claimed here; the
                    # structured sweeps below decide, and if they find nothing the run ends as a
                    # harness error (exit 2), never as a pass
                    flaky = "%s" % type(_sys.exc_info()[1]).__name__
                    return {"stats": list(_STATS), "fail": None, "flaky": flaky}
                raise
            fail = _LAST_FAIL[0]
    finally:
        _GOLD[0].close()
    return {"stats": list(_STATS), "fail": fail}


def minimize_ops(ops, pred, budget=300, golden_fn=None):
    """Delta-debug a failing history: drop operations, then shrink the configs
    of the remaining create operations (each candidate replayed in a fresh
    child process)."""
    used = [0]

    def fails(cand):
        if used[0] >= budget:
            return False
        used[0] += 1
        r = replay_ops(cand, golden_fn)
        return r is not None and r[0] == pred
    cur = [list(o) for o in ops if o[0] != "finish_all"]
    changed = True
    while changed and used[0] < budget:
        changed = False
        for size in (8, 4, 2, 1):
            i = len(cur) - size
            while i >= 0 and used[0] < budget:
                cand = cur[:i] + cur[i + size:]
                if any(o[0] == "create" for o in cand) and fails(cand):
                    cur = cand
                    changed = True
                i -= size
    for i, o in enumerate(cur):
        if o[0] == "create":
            def f(c, i=i):
                return fails(cur[:i] + [["create", c]] + cur[i + 1:])
            small = C.shrink(o[1], f, budget=40)
            cur[i] = ["create", small]
    return cur


def _pair_sweep(job):
    """Structured generator: every ordered sibling pair (A, B) of a small box, in both
    orders of use, each pair in its own forked child; B's (and A's) stream vs. golden."""
    pairs = job
    g = Golden()
    out = []
    try:
        for A, B in pairs:
            orders = [[["create", A], ["adv", 0, 1000000], ["create", B], ["adv", 0, 1000000]],
                      [["create", A], ["create", B], ["adv", 1, 1000000], ["adv", 0, 1000000]]]
            if A["cls"] in C.REVOLVE_FAMILY or A["n"] <= 4:
                # A, B, A again: tables rescaled / rebuilt in place (cost-dependent tables exist in the Revolve family only)
                orders.append([["create", A], ["adv", 0, 1000000], ["create", B], ["adv", 0, 1000000], ["create", A], ["adv", 0, 1000000]])
            for ops in orders:
                r = replay_ops(ops, g.get)
                if r is not None:
                    out.append({"ops": ops, "pred": r[0], "detail": r[1], "variant": r[2]})
                    break
    finally:
        g.close()
    return {"pairs": len(pairs), "fails": out}


def _abandon_sweep(job):
    """Structured generator: a schedule is advanced k actions, then abandoned (dropped and collected);
    the next schedule built in the same process - the same parameters, or a sibling - must not notice:
    shared mutable class attributes, registries keyed on id(), weak references, __del__ side effects."""
    cfgs = job
    g = Golden()
    out = []
    n = 0
    try:
        for cfg in cfgs:
            L = len(g.get(cfg))
            sib = [b for _, b in siblings(cfg)][:1]
            for k in sorted({1, 2, max(1, L // 2), max(1, L - 2)}):
                if k >= L:
                    continue
                for B in [cfg] + sib:
                    ops = [["create", cfg], ["adv", 0, k], ["finish", 0], ["create", B], ["adv", 0, 1000000]]
                    n += 1
                    r = replay_ops(ops, g.get)
                    if r is not None:
                        out.append({"ops": ops, "pred": r[0], "detail": r[1], "variant": r[2]})
                        break
                else:
                    continue
                break
    finally:
        g.close()
    return {"n": n, "fails": out}


IDREUSE_CAP = 2500


def idreuse_child(payload):
    """(in a pristine child) m schedules are advanced k actions and dropped; then schedules with the same
    parameters are built (and kept alive) until one of them lives at the address - has the id() - of a
    dropped one; that one is run to its end. State attached to a schedule through its id() or its
    memory (registries keyed on id(self), stale weak references) shows here and nowhere else."""
    cfg, m, k = payload["cfg"], payload["m"], payload["k"]
    runners = [StreamRunner(cfg) for _ in range(m)]
    for r in runners:
        for _ in range(k):
            r.step()
    old = set(id(r.sched) for r in runners)
    r = None
    del runners
    gc.collect()
    keep = []
    for i in range(IDREUSE_CAP):
        r = StreamRunner(cfg)
        keep.append(r)
        if id(r.sched) in old:
            while not r.done:
                r.step()
            return {"hit": i, "stream": [list(t) for t in r.stream]}
    return {"hit": None}


def idreuse_box(tier):
    out = [{"cls": "None", "n": 3, "passes": 0}, {"cls": "SingleMemory", "n": 3, "passes": 2}, {"cls": "SingleDisk", "move": False, "n": 3, "passes": 2},
           {"cls": "SingleDisk", "move": True, "n": 3, "passes": 1},
           {"cls": "Multistage", "n": 8, "ram": 1, "disk": 1, "traj": "maximum", "passes": 1}, {"cls": "Mixed", "n": 8, "s": 2, "storage": "DISK", "passes": 1},
           {"cls": "TwoLevel", "period": 3, "b": 1, "storage": "RAM", "traj": "maximum", "n": 7, "passes": 2},
           {"cls": "Revolve", "n": 8, "s": 2, "c8": [8, 8, 16, 16], "passes": 1}, {"cls": "DiskRevolve", "n": 8, "s": 1, "c8": [8, 8, 4, 4], "passes": 1},
           {"cls": "PeriodicDiskRevolve", "n": 8, "s": 1, "c8": [8, 8, 16, 16], "passes": 1}, {"cls": "HRevolve", "n": 8, "s": 1, "d": 2, "c8": [8, 8, 4, 4], "passes": 1}]
    ks = (2, 4) if tier == "quick" else (1, 2, 3, 4, 6)
    return [(c, 16, k) for c in out for k in ks]


def _idreuse(job):
    from .. import forkserver
    cfg, m, k = job
    res = forkserver.client().call("vlib.props.c15.idreuse_child", {"cfg": cfg, "m": m, "k": k})
    if res["hit"] is None:
        return {"hit": None}
    got = [tuple(t) for t in res["stream"]]
    want = golden_once(cfg)
    if got != want:
        j = next((i for i in range(min(len(got), len(want))) if got[i] != want[i]), min(len(got), len(want)))
        return {"hit": res["hit"], "fail": {"cfg": cfg, "m": m, "k": k, "variant": C.variant(cfg),
                "detail": "%s: a schedule built at the address (id) of one of %d dropped schedules that had been advanced %d actions differs from the fresh-interpreter stream at action %d" % (C.describe(cfg), m, k, j + 1)}}
    return {"hit": res["hit"]}


def obs_box(tier):
    """Configs for the observer-interleaving sweep: the small offline box and every online class,
    finalised at once and 1-3 Forward requests late."""
    base = [c for c in pair_base("quick") if c["n"] <= (5 if tier == "quick" else 6)]
    for n in (1, 2, 3, 5):
        for late in (0, 1, 2, 3):
            L = {"late": late} if late else {}
            base.append(dict({"cls": "None", "n": n, "passes": 0}, **L))
            base.append(dict({"cls": "SingleMemory", "n": n, "passes": 2}, **L))
            base.append(dict({"cls": "SingleDisk", "move": False, "n": n, "passes": 2}, **L))
            base.append(dict({"cls": "SingleDisk", "move": True, "n": n, "passes": 1}, **L))
            for p, b in ((1, 0), (2, 1), (3, 2)):
                base.append(dict({"cls": "TwoLevel", "period": p, "b": b, "storage": "RAM" if (p + n) % 2 else "DISK", "traj": "maximum", "n": n, "passes": 2}, **L))
    return base


def _obs_sweep(job):
    """Structured generator: one schedule alone, all observers read after EVERY action, and after
    exactly ONE action (each of the first 10 positions): a read must not change what comes next."""
    cfgs = job
    g = Golden()
    out = []
    n = 0
    try:
        for cfg in cfgs:
            L = len(g.get(cfg))
            hists = [[["create", cfg]] + [x for _ in range(min(L, 80)) for x in (["adv", 0, 1], ["obs", 0])] + [["adv", 0, 1000000]]]
            hists.append([["create", cfg], ["obs", 0], ["adv", 0, 1000000]])
            for pos in range(1, min(L, 10)):
                hists.append([["create", cfg], ["adv", 0, pos], ["obs", 0], ["adv", 0, 1000000]])
            for ops in hists:
                n += 1
                r = replay_ops(ops, g.get)
                if r is not None:
                    out.append({"ops": ops, "pred": r[0], "detail": r[1], "variant": r[2]})
                    break
    finally:
        g.close()
    return {"n": n, "fails": out}


HASH_SEEDS = ("1", "4242", "99991")


def _env_sweep(job):
    """The same config in fresh interpreters that differ only in process-level state a stream must
    not depend on: the string-hash seed (order of sets / dicts keyed on str or enum members)."""
    cfgs = job
    g0 = Golden()
    others = [(h, Golden(PYTHONHASHSEED=h)) for h in HASH_SEEDS]
    out = []
    try:
        for cfg in cfgs:
            want = g0.get(cfg)
            for h, g in others:
                got = g.get(cfg)
                if got != want:
                    i = next((j for j in range(min(len(got), len(want))) if got[j] != want[j]), min(len(got), len(want)))
                    out.append({"cfg": cfg, "hashseed": h, "variant": C.variant(cfg),
                                "detail": "%s: stream under PYTHONHASHSEED=%s differs from the stream under PYTHONHASHSEED=%s at action %d" % (
                                    C.describe(cfg), h, os.environ.get("PYTHONHASHSEED", "<unset>"), i + 1)})
                    break
    finally:
        g0.close()
        for _, g in others:
            g.close()
    return {"n": len(cfgs), "fails": out}


def _style_sweep(job):
    """Equal parameters written another way (all keywords; defaults omitted; integral costs as ints;
    costs as numpy.float64): the stream must be the same, each construction in a fresh child."""
    cfgs = job
    g = Golden()
    out = []
    n = 0
    try:
        for cfg in cfgs:
            want = g.get(cfg)
            for st in ("kw", "kwr", "pkr", "dflt") + (("ci", "npf") if "c8" in cfg else ()):
                n += 1
                got = g.get(dict(cfg, style=st))
                if got != want:
                    i = next((j for j in range(min(len(got), len(want))) if got[j] != want[j]), min(len(got), len(want)))
                    out.append({"cfg": cfg, "style": st, "variant": C.variant(cfg),
                                "detail": "%s: stream differs at action %d when the same parameters are passed another way (%s)" % (
                                    C.describe(cfg), i + 1, C.STYLES[st])})
                    break
    finally:
        g.close()
    return {"n": n, "fails": out}


def style_box(tier):
    seen = set()
    out = []
    for c in list(C.call_style_box(tier)) + pair_base("quick"):
        c = {k: v for k, v in c.items() if k != "style"}
        if tier == "quick" and c["n"] not in (1, 2, 3, 5, 7, 30):
            continue
        if C.key(c) not in seen:
            seen.add(C.key(c))
            out.append(c)
    return out


def pair_base(tier):
    N = 6 if tier == "quick" else 9
    base = []
    for n in range(2, N + 1):
        for ram in range(0, 3):
            for disk in range(0, 3):
                if ram + disk:
                    for tr in ("maximum", "revolve"):
                        base.append({"cls": "Multistage", "n": n, "ram": ram, "disk": disk, "traj": tr, "passes": 1})
        for sx in range(1, 4):
            for stg in ("RAM", "DISK"):
                base.append({"cls": "Mixed", "n": n, "s": sx, "storage": stg, "passes": 1})
            for cls in ("Revolve", "DiskRevolve", "PeriodicDiskRevolve"):
                base.append({"cls": cls, "n": n, "s": sx, "c8": [8, 8, 16, 16], "passes": 1})
            for d in (0, 1, 2):
                base.append({"cls": "HRevolve", "n": n, "s": sx, "d": d, "c8": [8, 16, 16, 4], "passes": 1})
        for p in (1, 2, 3):
            for b in (0, 1, 2):
                base.append({"cls": "TwoLevel", "period": p, "b": b, "storage": "RAM" if (n + p + b) % 2 else "DISK", "traj": "maximum", "n": n, "passes": 1})
    # a few larger Revolve-family members (their tables only differ from size ~30 on)
    for n in (30, 41):
        base.append({"cls": "HRevolve", "n": n, "s": 2, "d": 2, "c8": [8, 8, 16, 16], "passes": 1})
        base.append({"cls": "HRevolve", "n": n, "s": 1, "d": 3, "c8": [8, 16, 16, 4], "passes": 1})
        base.append({"cls": "DiskRevolve", "n": n, "s": 2, "c8": [8, 8, 16, 16], "passes": 1})
        base.append({"cls": "PeriodicDiskRevolve", "n": n, "s": 2, "c8": [8, 8, 16, 16], "passes": 1})
        base.append({"cls": "Multistage", "n": n, "ram": 2, "disk": 2, "traj": "maximum", "passes": 1})
        base.append({"cls": "Mixed", "n": n, "s": 3, "storage": "RAM", "passes": 1})
    return base


def pair_box(tier):
    base = pair_base(tier)
    pairs = []
    for A in base:
        for _, B in siblings(A):
            pairs.append((A, B))
    return pairs


def check_witness(data, show=False):
    w = data["witness"]
    if "idreuse" in w:
        r = _idreuse((w["cfg"], w["idreuse"][0], w["idreuse"][1]))
        if show:
            print("replaying the id-reuse probe for %s (m=%d, k=%d): reached=%s" % (C.describe(w["cfg"]), w["idreuse"][0], w["idreuse"][1], r["hit"]))
        return [((r["fail"]["variant"], "state-attached-to-object-identity"), w, r["fail"]["detail"], "env")] if r.get("fail") else []
    if "style" in w:
        r = _style_sweep([w["cfg"]])
        if show:
            print("replaying %s in every call style" % C.describe(w["cfg"]))
        return [((f["variant"], "call-style-dependent"), {"cfg": f["cfg"], "style": f["style"]}, f["detail"], "env") for f in r["fails"]]
    if "hashseed" in w:
        r = _env_sweep([w["cfg"]])
        if show:
            print("replaying %s under several PYTHONHASHSEED values" % C.describe(w["cfg"]))
        return [((f["variant"], "hash-seed-dependent"), {"cfg": f["cfg"], "hashseed": f["hashseed"]}, f["detail"], "env") for f in r["fails"]]
    if show:
        for op in w["ops"]:
            print("  " + json.dumps(op))
    res = replay_ops(w["ops"])
    if res is None:
        return []
    pred, detail, variant = res
    return [((variant, pred), w, detail, "history")]


def run(prop, args):
    rep = R.Report(prop, args, RULE)
    if args.replay:
        rep.evaluations = 1
        for b, w, d, k in check_witness(R.load_replay(args.replay), show=True):
            rep.add_violation(b, w, d, kind=k)
        return rep.finish()
    tier = args.tier
    import time as _t
    _t0 = [_t.time()]
    phases = {}

    def lap(name):
        phases[name] = round(_t.time() - _t0[0], 1)
        _t0[0] = _t.time()
    examples, steps = (80, 40) if tier == "quick" else (800, 80)
    res = R.pmap(_shard, [(tier, args.seed, k, examples, steps) for k in range(16)], chunksize=1)
    compared = 0
    flaky_shards = []
    for part in res:
        for s in part["stats"]:
            rep.evaluations += 1
            compared += s["compared"]
            rep.count("hist", "objects=%d" % min(s["objs"], 8))
            if s["nt"]:
                rep.nontrivial.add(s["key"])
                if len(rep.samples) < 4 and len(rep.nontrivial) % 17 == 1:
                    rep.sample({"history": json.loads(s["key"])[:30], "objects": s["objs"], "max_live": s["max_live"], "classes": s["classes"]})
            if s["max_live"] >= 4:
                rep.count("regions", "live-objects>=4")
        f = part["fail"]
        if f is not None:
            rep.add_violation((f["variant"], f["pred"]), {"ops": f["ops"]}, f["detail"], kind="history")
        if part.get("flaky"):
            flaky_shards.append(part["flaky"])
    lap("stateful")
    # structured sibling-pair sweep (caches keyed on too little, in-place mutation of shared tables)
    pairs = pair_box(tier)
    pres = R.pmap(_pair_sweep, R.chunks(pairs, 64), chunksize=1)
    npairs = 0
    for part in pres:
        npairs += part["pairs"]
        for f in part["fails"]:
            rep.add_violation((f["variant"], f["pred"]), {"ops": f["ops"]}, f["detail"], kind="history")
    rep.evaluations += npairs
    lap("pairs")
    # observer-interleaving sweep
    obox = obs_box(tier)
    nobs = 0
    for part in R.pmap(_obs_sweep, R.chunks(obox, max(1, len(obox) // 48 + 1)), chunksize=1):
        nobs += part["n"]
        for f in part["fails"]:
            rep.add_violation((f["variant"], f["pred"]), {"ops": f["ops"]}, f["detail"], kind="history")
    rep.evaluations += nobs
    lap("observers")
    abox = [c for c in pair_base(tier) if c["n"] <= (4 if tier == "quick" else 9) or c["n"] >= 30]
    nab = 0
    for part in R.pmap(_abandon_sweep, R.chunks(abox, max(1, len(abox) // 48 + 1)), chunksize=1):
        nab += part["n"]
        for f in part["fails"]:
            rep.add_violation((f["variant"], f["pred"]), {"ops": f["ops"]}, f["detail"], kind="history")
    rep.evaluations += nab
    lap("abandon")
    ab_ex = {"box": "abandoned schedules: every small config advanced k actions (k in 1, 2, half, all but two), dropped and collected, then the same config / a sibling built and run in the same process",
             "cases": nab, "exhaustive": True}
    ijobs = idreuse_box(tier)
    reached = 0
    for job, r in zip(ijobs, R.pmap(_idreuse, ijobs, chunksize=1)):
        rep.evaluations += 1
        if r["hit"] is not None:
            reached += 1
        if r.get("fail"):
            f = r["fail"]
            rep.add_violation((f["variant"], "state-attached-to-object-identity"), {"cfg": f["cfg"], "idreuse": [f["m"], f["k"]]}, f["detail"], kind="env")
    lap("idreuse")
    rep.extra["id_reuse_probes"] = {"probes": len(ijobs), "address_reused_within_cap": reached, "cap": IDREUSE_CAP}
    obs_ex = ({"box": "observer interleaving: every small offline config (n<=%d) and every online class (n in {1,2,3,5}, finalised 0-3 Forward requests late); all observers read after every action, and after exactly one action (positions 0..9)" % (5 if tier == "quick" else 6),
                           "cases": nobs, "exhaustive": True})
    # interpreter-environment sweep: same config, different string-hash seeds
    ebase = pair_base(tier) + [dict(c, passes=2) for c in pair_base("quick") if c["cls"] == "TwoLevel"]
    eres = R.pmap(_env_sweep, R.chunks(ebase, max(1, len(ebase) // 16 + 1)), chunksize=1)
    for part in eres:
        rep.evaluations += part["n"]
        for f in part["fails"]:
            rep.add_violation((f["variant"], "hash-seed-dependent"), {"cfg": f["cfg"], "hashseed": f["hashseed"]}, f["detail"], kind="env")
    lap("hashseed")
    sbase = style_box(tier)
    nstyle = 0
    for part in R.pmap(_style_sweep, R.chunks(sbase, max(1, len(sbase) // 32 + 1)), chunksize=1):
        nstyle += part["n"]
        for f in part["fails"]:
            rep.add_violation((f["variant"], "call-style-dependent"), {"cfg": f["cfg"], "style": f["style"]}, f["detail"], kind="env")
    rep.evaluations += nstyle
    lap("styles")
    rep.extra["phase_seconds"] = phases
    rep.extra["call_style_sweep"] = {"configs": len(sbase), "constructions_compared": nstyle, "styles": C.STYLES}
    rep.extra["hash_seed_sweep"] = {"configs": len(ebase), "PYTHONHASHSEED": ["0 (the run's own)"] + list(HASH_SEEDS)}
    for A, B in pairs:
        if (A["cls"] in SHARE_A or A["cls"] in SHARE_B):
            rep.nontrivial.add("pair:" + C.key(A) + "|" + C.key(B))
    rep.exhaustive = [{"box": "every ordered pair (A, B) of configs differing in exactly one parameter, n<=%d, units<=3, orders of use A then B; B before A; and (Revolve family, and every class for n<=4) A, B, then A again, each in a pristine child" % (6 if tier == "quick" else 9),
                       "cases": npairs, "exhaustive": True}, obs_ex, ab_ex]
    R.run_regress(rep, check_witness)

    def shrink(b, w):
        if "idreuse" in w:
            return None
        if "style" in w:
            small = C.shrink(w["cfg"], lambda c: bool(_style_sweep([c])["fails"]))
            f = _style_sweep([small])["fails"]
            return ({"cfg": small, "style": f[0]["style"]}, f[0]["detail"]) if f else None
        if "hashseed" in w:
            small = C.shrink(w["cfg"], lambda c: bool(_env_sweep([c])["fails"]))
            f = _env_sweep([small])["fails"]
            return ({"cfg": small, "hashseed": f[0]["hashseed"]}, f[0]["detail"]) if f else None
        g = Golden()      # one fresh-interpreter server for the whole minimisation
        try:
            ops = minimize_ops(w["ops"], b[1], golden_fn=g.get)
        finally:
            g.close()
        r = replay_ops(ops)
        if r is None:
            return None
        return {"ops": ops}, r[1]
    rep.extra["streams_compared_with_fresh_interpreter"] = compared
    rep.extra["stateful_step_count"] = steps
    rep.assumptions = ["golden stream = stream of the same config in a fresh interpreter that has only imported the library (forked pristine child per config)",
                       "histories bounded by stateful_step_count and 6 live objects; a dependence that needs a longer history is out of reach",
                       "every history runs in a child process forked from a pristine worker, so it is a pure function of its operation list; failing histories are minimised by delta debugging (Hypothesis shrink phase not used: one fork per example)"]
    rep.extra["nondeterministic_history_shards"] = len(flaky_shards)
    if flaky_shards and not rep.buckets:
        R.harness_error("%d stateful shard(s) saw the same history behave differently in two child processes (%s) and no sweep found a violation: inconclusive" % (len(flaky_shards), flaky_shards[0]))
    return rep.finish(shrink_fn=shrink)

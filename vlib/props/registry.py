"""Property id -> runner function."""


def get(prop):
    from . import stream
    if prop in stream.PROPS:
        return stream.run
    table = {}
    for name in ("c05", "c06", "c07", "c09", "c10", "c13", "c14", "c15", "c16", "c17", "c18", "c19"):
        try:
            m = __import__("vlib.props." + name, fromlist=["run"])
        except ImportError:
            continue
        table[name.upper()] = m.run
    return table.get(prop)

"""C13 - TwoLevel: periodic DISK checkpoints in the forward sweep, binomially
optimal recomputation of every period block in every pass, extra checkpoints
only in the binomial storage, both trajectories."""
from .. import configs as C
from .. import oracles as O
from .. import runner as R

RULE = ("cases = (period, binomial_snapshots, storage, trajectory, n, passes); exhaustive box + Hypothesis draws; a case contributes one check per "
        "(pass, block); non-trivial = the case has a block of length L>=4 recomputed with 2 <= binomial_snapshots+1 < L-1 units; distinct = distinct config hash")


def _case(cfg):
    from .. import monitor
    r = monitor.execute(cfg, want_trace=True)
    out = {"cfg": cfg, "viol": [], "status": r["status"], "blocks": 0, "nontrivial": False, "partial": False}
    if r["status"] == "inconclusive":
        return out
    if r["status"] != "ok" or not r.get("completed"):
        out["viol"].append(("stream-incomplete", "%s: no complete stream (%s)" % (C.describe(cfg), r.get("lib_exc") or r["viol"][:1])))
        return out
    tr = r["trace"]
    p, b, n, stg = cfg["period"], cfg["b"], cfg["n"], cfg["storage"]
    try:
        iend = next(i for i, t in enumerate(tr) if t[0] == "EF")
    except StopIteration:
        out["viol"].append(("stream-incomplete", "no EndForward"))
        return out
    nblocks = -(-n // p)
    want = [("F", k * p, (k + 1) * p, True, False, "DISK") for k in range(nblocks)]
    if tr[:iend] != want:
        i = next((j for j in range(min(len(want), iend)) if tr[j] != want[j]), min(len(want), iend))
        out["viol"].append(("forward-sweep", "%s: forward sweep action %d is %s, expected %s" % (
            C.describe(cfg), i + 1, monitor.fmt(tr[i]) if i < iend else "<EndForward>", monitor.fmt(want[i]) if i < len(want) else "<EndForward>")))
    # per pass, per block recomputation steps
    cur = {}
    passes = []
    for t in tr[iend + 1:]:
        if t[0] == "F":
            n0, n1 = t[1], min(t[2], n)
            blk = n0 // p
            if (n1 - 1) // p != blk:
                out["viol"].append(("block-crossing", "%s: %s crosses a period boundary" % (C.describe(cfg), monitor.fmt(t))))
            cur[blk] = cur.get(blk, 0) + (n1 - n0)
            if t[3] and t[5] != stg:
                out["viol"].append(("extra-checkpoint-storage", "%s: %s stores a restart checkpoint outside the binomial storage %s" % (C.describe(cfg), monitor.fmt(t), stg)))
            if t[4] and t[5] != "WORK":
                out["viol"].append(("extra-checkpoint-storage", "%s: %s stores adjoint data outside WORK" % (C.describe(cfg), monitor.fmt(t))))
        elif t[0] == "ER":
            passes.append(cur)
            cur = {}
    for pi, ps in enumerate(passes):
        for blk in range(nblocks):
            L = min((blk + 1) * p, n) - blk * p
            wantsteps = O.gw_total(L, b + 1) if L > 1 else 1
            out["blocks"] += 1
            if L >= 4 and 2 <= b + 1 < L - 1:
                out["nontrivial"] = True
            if L < p:
                out["partial"] = True
            if ps.get(blk, 0) != wantsteps:
                out["viol"].append(("block-not-optimal", "%s: pass %d block %d (length %d) recomputed with %d forward steps, binomial optimum for %d units is %d" % (
                    C.describe(cfg), pi + 1, blk, L, ps.get(blk, 0), b + 1, wantsteps)))
                break
    out["digest"] = r["digest"]
    out["head"] = r["head"]
    out["passes"] = len(passes)
    return out


def _gen(job):
    tier, seed, shard, count = job
    S = C.strategies(tier)
    return [_case(c) for c in C.generate(S["TwoLevel"], count, seed * 1000 + shard)]


def _box(tier):
    P, B, N = (6, 4, 24) if tier == "quick" else (12, 6, 72)
    for p in range(1, P + 1):
        for b in range(0, B + 1):
            for stg in ("RAM", "DISK"):
                for tr in ("maximum", "revolve"):
                    for n in range(1, N + 1):
                        yield {"cls": "TwoLevel", "period": p, "b": b, "storage": stg, "traj": tr, "n": n,
                               "passes": 1 + (n + p + b) % 3}


def check_witness(data, show=False):
    w = data["witness"]
    out = _case(w)
    if show:
        print("replaying %s" % C.describe(w))
    seen = set()
    res = []
    for pred, detail in out["viol"]:
        if pred not in seen:
            seen.add(pred)
            res.append((("TwoLevel", pred), w, detail, "config"))
    return res


def _box2(tier):
    """One full block followed by EVERY partial last block, medium/large periods: the reversal of
    the partial block runs first and may leave state behind that the full block then meets."""
    P0, P1, BS = (17, 40, (2, 3, 4)) if tier == "quick" else (13, 64, (1, 2, 3, 4, 5, 6))
    for p in range(P0, P1 + 1):
        for b in BS:
            for tr in ("maximum", "revolve"):
                for L in range(1, p):
                    yield {"cls": "TwoLevel", "period": p, "b": b, "storage": "RAM" if (p + L) % 2 else "DISK", "traj": tr, "n": p + L,
                           "passes": 1}


def _scan_cases(tier):
    """Step-size scan as a GENERATOR (as in C05): every block length L and unit count whose step size
    n_advance(L, units, trajectory) is not locally optimal against the closed form becomes a TwoLevel
    case - a full block of that length, and that length as the partial last block. Only the stream's
    per-block step count decides. Block lengths reach far beyond what the box can enumerate."""
    from .c05 import _advance_scan
    LMAX, SMAX = (400, 10) if tier == "quick" else (1200, 24)
    scan = R.pmap(_advance_scan, [(lo, min(lo + 24, LMAX), SMAX) for lo in range(2, LMAX + 1, 25)], chunksize=1)
    cands = sorted(set(c for _, part in scan for c in part))
    cases = []
    for (L, units, tr) in cands[:120]:
        stg = "RAM" if (L + units) % 2 else "DISK"
        cases.append({"cls": "TwoLevel", "period": L, "b": units - 1, "storage": stg, "traj": tr, "n": L, "passes": 1})
        cases.append({"cls": "TwoLevel", "period": L + 3, "b": units - 1, "storage": stg, "traj": tr, "n": 2 * L + 3, "passes": 1})
    return {"sub_problems": sum(c for c, _ in scan), "block_length_max": LMAX, "units_max": SMAX, "candidates_confirmed_by_stream": len(cands)}, cases


def _long_blocks(tier):
    """A sparse ladder of long blocks (the box stops at period 12/64): both trajectories."""
    LS = (72, 100, 143, 200, 256, 257, 330) if tier == "quick" else (72, 100, 113, 143, 169, 200, 241, 256, 257, 300, 330, 512, 700)
    for L in LS:
        for b in (1, 2, 4, 5, 6, 7, 9):
            for tr in ("maximum", "revolve"):
                yield {"cls": "TwoLevel", "period": L, "b": b, "storage": "RAM" if (L + b) % 2 else "DISK", "traj": tr, "n": L + (L // 3 if b % 2 else 0), "passes": 1}


def run(prop, args):
    rep = R.Report(prop, args, RULE)
    if args.replay:
        rep.evaluations = 1
        for b, w, d, k in check_witness(R.load_replay(args.replay), show=True):
            rep.add_violation(b, w, d, kind=k)
        return rep.finish()
    tier = args.tier
    # closed form self-check against exhaustive search (the same closed form C05 validates)
    NS = 7 if tier == "quick" else 9
    for n in range(2, NS + 1):
        for s in range(1, n):
            if O.opt_binomial_search(n, s) != O.gw_total(n, s):
                R.harness_error("closed form != search at n=%d s=%d" % (n, s))
    box = list(_box(tier))
    box2 = list(_box2(tier))
    scan_info, scan_cases = _scan_cases(tier)
    rep.extra["step_size_scan"] = scan_info
    longb = list(_long_blocks(tier))
    res = R.pmap(_case, box + box2 + scan_cases + longb)
    count = 500 if tier == "quick" else 6000
    res += [x for part in R.pmap(_gen, [(tier, args.seed, k, count) for k in range(16)], chunksize=1) for x in part]
    rep.exhaustive = [{"box": "period<=%d, binomial_snapshots<=%d, both storages, both trajectories, n<=%d, passes 1..3" % ((6, 4, 24) if tier == "quick" else (12, 6, 72)),
                       "cases": len(box), "exhaustive": True},
                      {"box": "one full block + every partial last block: period %d..%d, binomial_snapshots in %s, both trajectories" % (
                          (17, 40, [2, 3, 4]) if tier == "quick" else (13, 64, [1, 2, 3, 4, 5, 6])), "cases": len(box2), "exhaustive": True},
                      {"box": "ladder of long blocks (period 72..%d, binomial_snapshots in {1,2,4,5,6,7,9}, both trajectories) + blocks proposed by the step-size scan" % (330 if tier == "quick" else 700),
                       "cases": len(longb) + len(scan_cases), "exhaustive": False}]
    blocks = 0
    for out in res:
        cfg = out["cfg"]
        rep.evaluations += 1
        if out["status"] == "inconclusive":
            rep.inconclusive += 1
            continue
        blocks += out["blocks"]
        rep.count("hist", "period=%s" % ("1" if cfg["period"] == 1 else "2" if cfg["period"] == 2 else "3-6" if cfg["period"] <= 6 else "7-64" if cfg["period"] <= 64 else ">64"))
        if out["nontrivial"]:
            rep.nontrivial.add(C.chash(cfg))
            if len(rep.nontrivial) % 307 == 1:
                rep.sample({"call": C.describe(cfg), "stream_digest": out.get("digest"), "first_actions": out.get("head"), "block_checks": out["blocks"]})
        for key, flag in (("partial-last-block", out["partial"]), ("storage=DISK", cfg["storage"] == "DISK"), ("trajectory=revolve", cfg["traj"] == "revolve"),
                          ("period!=2", cfg["period"] != 2), ("passes>=2", out.get("passes", 0) >= 2)):
            if flag:
                rep.count("regions", key)
        seen = set()
        for pred, detail in out["viol"]:
            if pred not in seen:
                seen.add(pred)
                rep.add_violation(("TwoLevel", pred), cfg, detail)
    rep.extra["block_checks"] = blocks
    R.run_regress(rep, check_witness)

    def shrink(b, w):
        small = C.shrink(w, lambda c: any(p == b[1] for p, _ in _case(c)["viol"]))
        d = [d for p, d in _case(small)["viol"] if p == b[1]]
        return (small, d[0]) if d else None      # None: not reproducible in isolation
    return rep.finish(shrink_fn=shrink)

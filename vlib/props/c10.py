"""C10 - finalize() accepts exactly the true end of the forward and nothing else.

Model-based stateful testing (Hypothesis RuleBasedStateMachine) over call
histories of next() / finalize(k) / observer reads on one schedule object of
any class, compared with a small reference model, plus a TWIN object of the
same config that receives only the accepted finalize calls: the two streams
must stay identical action for action, and observers must be unchanged by
every rejected call.
"""
import json

from .. import configs as C
from .. import runner as R

RULE = ("cases = call histories (init(config), then next / finalize(k) / observe steps; k drawn from {-1,0,1,2,told-1,told,told+1,told//2,max_n,random}); "
        "non-trivial = history with >=1 rejected and >=1 accepted finalize, or an online finalisation strictly inside a multi-step Forward (k < told); "
        "distinct = distinct operation sequence")


class Violation(Exception):
    def __init__(self, pred, detail):
        super().__init__("%s: %s" % (pred, detail))
        self.pred = pred
        self.detail = detail


class FinalizeModel:
    """Reference model + system under test + twin. Plain Python (used by the
    Hypothesis machine and by --replay)."""

    def __init__(self, cfg):
        from .. import lib
        self.lib = lib
        self.cfg = cfg
        self.s = lib.quiet(C.build, cfg)
        self.twin = lib.quiet(C.build, cfg)
        self.ops = [["init", cfg]]
        self.online = C.is_online(cfg)
        self.max_n = None if self.online else cfg["n"]
        self.told = 0            # end of the last Forward of the initial sweep
        self.fwd = 0             # forward state position (None = undefined)
        self.kind = {}           # (storage, step) -> "ics" | "adj"
        self.must_endforward = False
        self.accepted = 0
        self.rejected = 0
        self.inside_multistep = False
        self.stopped = False
        self.actions = 0
        self.sweep = True        # initial forward sweep still running
        self.bounds = [0]        # starts/ends of the Forwards issued in the initial sweep

    def observers(self, obj):
        out = []
        for name in ("n", "r", "max_n", "is_exhausted", "is_running"):
            try:
                out.append(getattr(obj, name))
            except Exception as e:
                out.append("raise:%s" % type(e).__name__)
        return tuple(out)

    # -- operations -------------------------------------------------------
    def _next(self, obj):
        lib = self.lib
        try:
            a = lib.quiet(next, obj)
        except StopIteration:
            return ("STOP",)
        except Exception as e:
            return ("RAISE", type(e).__name__)
        return lib.norm(a)

    def op_next(self):
        self.ops.append(["next"])
        if self.stopped:
            return
        a = self._next(self.s)
        b = self._next(self.twin)
        if a != b:
            raise Violation("stream-diverged", "after %d actions the object that saw rejected finalize calls yields %s, its twin %s" % (
                self.actions, self._fmt(a), self._fmt(b)))
        if self.must_endforward:
            if a[0] != "EF":
                raise Violation("no-endforward-after-finalize", "action after the accepted finalize is %s, not EndForward" % self._fmt(a))
            self.must_endforward = False
        if a[0] in ("STOP", "RAISE"):
            self.stopped = True
            return
        self.actions += 1
        k = a[0]
        if k == "F":
            _, n0, n1, wi, wa, st = a
            if self.max_n is None:
                self.told = n1
                self.fwd = n1
                if n1 < 10 ** 9:
                    self.bounds += [n0, n1]
            else:
                self.fwd = min(n1, self.max_n)
            if st in ("RAM", "DISK"):
                self.kind[(st, n0)] = "ics" if wi else "adj"
        elif k == "EF":
            self.sweep = False
        elif k in ("C", "M"):
            _, n, src, dst = a
            if dst == "WORK":
                self.fwd = n if self.kind.get((src, n)) == "ics" else None
        # (schedule.n disagreeing with the model's forward position is C08's subject; if it
        # changes what finalize accepts, the next op_finalize reports it as wrong-outcome)

    def op_finalize(self, k):
        self.ops.append(["fin", k])
        before = self.observers(self.s)
        if k < 1:
            exp = "ValueError"
        elif self.max_n is None:
            exp = None if self.told >= k else "RuntimeError"
        else:
            exp = None if (k == self.max_n and self.fwd == self.max_n) else "RuntimeError"
        try:
            self.lib.quiet(self.s.finalize, k)
            got = None
        except Exception as e:
            got = type(e).__name__
        if got != exp:
            raise Violation("wrong-outcome", "finalize(%d) with max_n=%r, forward told to %d, forward at %r: expected %s, got %s" % (
                k, self.max_n, self.told, self.fwd, exp or "success", got or "success"))
        after = self.observers(self.s)
        if got is None:
            self.accepted += 1
            if self.max_n is None:
                if k < self.told:
                    self.inside_multistep = True
                self.max_n = k
                self.fwd = k
                self.must_endforward = True
                if (self.s.n, self.s.max_n) != (k, k):
                    raise Violation("state-after-finalize", "after finalize(%d): n=%r max_n=%r" % (k, self.s.n, self.s.max_n))
                if after[1] != before[1] or after[3] != before[3] or after[4] != before[4]:
                    raise Violation("state-after-finalize", "finalize(%d) changed r/is_exhausted/is_running: %r -> %r" % (k, before, after))
                try:
                    self.lib.quiet(self.twin.finalize, k)
                except Exception as e:
                    raise Violation("twin-rejects", "twin rejected the accepted finalize(%d): %s" % (k, type(e).__name__))
            else:
                if after != before:
                    raise Violation("noop-mutates", "no-op finalize(%d) changed observers %r -> %r" % (k, before, after))
                try:
                    self.lib.quiet(self.twin.finalize, k)
                except Exception as e:
                    raise Violation("twin-rejects", "twin rejected the accepted finalize(%d): %s" % (k, type(e).__name__))
        else:
            self.rejected += 1
            if after != before:
                raise Violation("reject-mutates", "rejected finalize(%d) (%s) changed observers (n, r, max_n, is_exhausted, is_running) %r -> %r" % (k, got, before, after))

    def op_observe(self):
        self.ops.append(["obs"])
        a, b = self.observers(self.s), self.observers(self.twin)
        if a != b:
            raise Violation("observers-diverged", "observers %r, twin %r" % (a, b))

    def _fmt(self, t):
        if t[0] in ("STOP", "RAISE"):
            return "/".join(t)
        return self.lib.fmt(t)

    def nontrivial(self):
        return (self.accepted >= 1 and self.rejected >= 1) or self.inside_multistep

    def pick_k(self, sel, rnd):
        b = self.bounds[rnd % len(self.bounds)]          # a start/end of some Forward issued so far
        cands = [-1, 0, 1, 2, self.told - 1, self.told, self.told + 1, self.told // 2, self.max_n or 1, rnd,
                 (self.max_n or self.told) - 1, (self.max_n or self.told) + 1, b, b - 1, b + 1, self.bounds[-2] if len(self.bounds) > 1 else 0]
        k = cands[sel % len(cands)]
        return int(max(-2, min(k, 10 ** 6)))


def config_strategy():
    from hypothesis import strategies as st
    S = C.strategies("quick")

    @st.composite
    def cfg(draw):
        cls = draw(st.sampled_from(["SingleMemory", "SingleDisk", "None", "TwoLevel", "TwoLevel", "TwoLevel",
                                    "Multistage", "Mixed", "Revolve", "DiskRevolve", "HRevolve"]))
        n = draw(st.integers(1, 9))
        if cls in ("SingleMemory", "None"):
            return {"cls": cls, "n": 0, "passes": 1}
        if cls == "SingleDisk":
            return {"cls": cls, "move": draw(st.booleans()), "n": 0, "passes": 1}
        if cls == "TwoLevel":
            return {"cls": cls, "period": draw(st.integers(1, 7)), "b": draw(st.integers(0, 3)), "storage": draw(st.sampled_from(["RAM", "DISK"])),
                    "traj": draw(st.sampled_from(["maximum", "revolve"])), "n": 0, "passes": 1}
        if cls == "Multistage":
            s = draw(st.integers(1, 3))
            ram = draw(st.integers(0, s))
            return {"cls": cls, "n": n, "ram": ram, "disk": s - ram, "traj": draw(st.sampled_from(["maximum", "revolve"])), "passes": 1}
        if cls == "Mixed":
            return {"cls": cls, "n": n, "s": draw(st.integers(1, 3)), "storage": draw(st.sampled_from(["RAM", "DISK"])), "passes": 1}
        if cls == "HRevolve":
            return {"cls": cls, "n": n, "s": draw(st.integers(1, 2)), "d": draw(st.integers(0, 2)), "c8": [8, 8, 16, 16], "passes": 1}
        return {"cls": cls, "n": n, "s": draw(st.integers(1, 3)), "c8": [8, 8, 16, 16], "passes": 1}
    return cfg()


_STATS = []
_LAST_FAIL = [None]


def make_machine():
    from hypothesis import strategies as st
    from hypothesis.stateful import RuleBasedStateMachine, rule, initialize, precondition

    class FinalizeMachine(RuleBasedStateMachine):
        def __init__(self):
            super().__init__()
            self.m = None

        def _guard(self, fn, *a):
            try:
                fn(*a)
            except Violation as v:
                _LAST_FAIL[0] = {"ops": json.loads(json.dumps(self.m.ops)), "pred": v.pred, "detail": v.detail, "variant": C.variant(self.m.cfg)}
                raise

        @initialize(cfg=config_strategy())
        def init(self, cfg):
            try:
                self.m = FinalizeModel(cfg)
            except Exception:
                self.m = None     # a constructor that raises for a valid config is C17's subject

        @precondition(lambda self: self.m is not None)
        @rule()
        def step(self):
            self._guard(self.m.op_next)

        @precondition(lambda self: self.m is not None)
        @rule(count=st.integers(2, 9))
        def steps(self, count):
            for _ in range(count):
                self._guard(self.m.op_next)

        @precondition(lambda self: self.m is not None)
        @rule(sel=st.integers(0, 15), rnd=st.integers(1, 40))
        def finalize(self, sel, rnd):
            self._guard(self.m.op_finalize, self.m.pick_k(sel, rnd))

        @precondition(lambda self: self.m is not None)
        @rule()
        def observe(self):
            self._guard(self.m.op_observe)

        @rule()
        def noop(self):
            pass

        def teardown(self):
            if self.m is not None:
                _STATS.append({"variant": C.variant(self.m.cfg), "ops": len(self.m.ops), "acc": self.m.accepted, "rej": self.m.rejected,
                               "nt": self.m.nontrivial(), "inside": self.m.inside_multistep, "actions": self.m.actions,
                               "key": json.dumps(self.m.ops, sort_keys=True), "online": self.m.online})
    return FinalizeMachine


def replay_ops(ops):
    """Re-execute a recorded history without Hypothesis. Returns (pred, detail) or None."""
    m = None
    try:
        for op in ops:
            if op[0] == "init":
                m = FinalizeModel(op[1])
            elif op[0] == "next":
                m.op_next()
            elif op[0] == "fin":
                m.op_finalize(op[1])
            elif op[0] == "obs":
                m.op_observe()
    except Violation as v:
        return (v.pred, v.detail, C.variant(m.cfg))
    return None


def fin_box(tier):
    """Every finalisation point of small online histories: j next() calls, then finalize(k) for EVERY
    k in -1..told+1, then three more next() calls and an observer read."""
    cfgs = [{"cls": "None", "n": 0, "passes": 1}, {"cls": "SingleMemory", "n": 0, "passes": 1},
            {"cls": "SingleDisk", "move": False, "n": 0, "passes": 1}, {"cls": "SingleDisk", "move": True, "n": 0, "passes": 1}]
    P = 5 if tier == "quick" else 8
    for p in range(1, P + 1):
        for b in (0, 2):
            cfgs.append({"cls": "TwoLevel", "period": p, "b": b, "storage": "RAM" if (p + b) % 2 else "DISK",
                         "traj": "maximum" if p % 2 else "revolve", "n": 0, "passes": 1})
    J = 4 if tier == "quick" else 6
    for cfg in cfgs:
        step = cfg.get("period", 1)
        for j in range(0, J + 1):
            told = j * step if cfg["cls"] in ("TwoLevel", "SingleDisk") else (0 if j == 0 else 3)
            for k in range(-1, min(told, 40) + 2):
                yield [["init", cfg]] + [["next"]] * j + [["fin", k], ["next"], ["next"], ["next"], ["obs"], ["fin", k], ["next"]]


def walk_box(tier):
    """finalize(max_n), finalize(max_n+1), finalize(max_n-1) probed after EVERY action of complete small
    streams of every class (offline: from construction on; online: after an ordinary finalisation):
    the known-max_n half of the statement at every stream position, incl. all adjoint passes."""
    N = 5 if tier == "quick" else 8
    cfgs = []
    for n in range(1, N + 1):
        cfgs += [{"cls": "Multistage", "n": n, "ram": 1, "disk": 1, "traj": "maximum", "passes": 1},
                 {"cls": "Mixed", "n": n, "s": 2, "storage": "DISK", "passes": 1},
                 {"cls": "Revolve", "n": n, "s": 2, "c8": [8, 8, 16, 16], "passes": 1},
                 {"cls": "DiskRevolve", "n": n, "s": 1, "c8": [8, 8, 4, 4], "passes": 1},
                 {"cls": "PeriodicDiskRevolve", "n": n, "s": 1, "c8": [8, 8, 16, 16], "passes": 1},
                 {"cls": "HRevolve", "n": n, "s": 1, "d": 1, "c8": [8, 8, 4, 4], "passes": 1}]
    for cfg in cfgs:
        m = cfg["n"]
        ops = [["init", cfg]]
        for _ in range(12 * m + 12):
            ops += [["next"], ["fin", m], ["fin", m + 1], ["fin", max(m - 1, 0)]]
        yield ops
    online = [{"cls": "SingleMemory", "n": 0, "passes": 1}, {"cls": "SingleDisk", "move": False, "n": 0, "passes": 1},
              {"cls": "SingleDisk", "move": True, "n": 0, "passes": 1}]
    for p in (1, 2, 3, 4):
        for b in (0, 1):
            online.append({"cls": "TwoLevel", "period": p, "b": b, "storage": "DISK" if b else "RAM", "traj": "maximum", "n": 0, "passes": 1})
    for cfg in online:
        step = cfg.get("period", 1)
        for j in (1, 2, 3):
            told = j * step if cfg["cls"] != "SingleMemory" else 3
            for m in sorted({told, max(told - 1, 1)}):
                ops = [["init", cfg]] + [["next"]] * j + [["fin", m]]
                for _ in range(3 * (10 * m + 10)):        # about three adjoint passes
                    ops += [["next"], ["fin", m], ["fin", m + 1], ["fin", max(m - 1, 0)]]
                yield ops


def _fin_box_chunk(histories):
    out = []
    for ops in histories:
        r = replay_ops(ops)
        if r is not None:
            out.append({"ops": ops, "pred": r[0], "detail": r[1], "variant": r[2]})
    return {"n": len(histories), "fails": out}


def _shard(job):
    tier, seed, shard, examples, steps = job
    import hypothesis
    from hypothesis import settings, HealthCheck, Phase
    from hypothesis.stateful import run_state_machine_as_test
    _STATS.clear()
    _LAST_FAIL[0] = None
    M = make_machine()
    fail = None
    try:
        run_state_machine_as_test(hypothesis.seed(seed * 1000 + shard)(M), settings=settings(
            max_examples=examples, stateful_step_count=steps, deadline=None, database=None, derandomize=False,
            suppress_health_check=list(HealthCheck), report_multiple_bugs=False,
            phases=[Phase.generate, Phase.shrink], print_blob=False))
    except Violation:
        fail = _LAST_FAIL[0]
    except Exception:
        # Hypothesis may wrap a violation it could not reproduce identically (Flaky)
        if _LAST_FAIL[0] is None:
            raise
        fail = _LAST_FAIL[0]
    return {"stats": list(_STATS), "fail": fail}


def minimize_ops(ops, pred, budget=600):
    """Delta-debug a failing history (operations are dropped while the same predicate still fails)."""
    used = [0]

    def fails(c):
        used[0] += 1
        try:
            r = replay_ops(c)
        except Exception:
            return False
        return r is not None and r[0] == pred
    cur = [list(o) for o in ops]
    changed = True
    while changed and used[0] < budget:
        changed = False
        for size in (16, 8, 4, 2, 1):
            i = len(cur) - size
            while i >= 1 and used[0] < budget:
                cand = cur[:i] + cur[i + size:]
                if fails(cand):
                    cur = cand
                    changed = True
                i -= size
    return cur


def check_witness(data, show=False):
    w = data["witness"]
    res = replay_ops(w["ops"])
    if show:
        for op in w["ops"]:
            print("  " + json.dumps(op))
    if res is None:
        return []
    pred, detail, variant = res
    return [((variant, pred), w, detail, "history")]


def run(prop, args):
    rep = R.Report(prop, args, RULE)
    if args.replay:
        rep.evaluations = 1
        for b, w, d, k in check_witness(R.load_replay(args.replay), show=True):
            rep.add_violation(b, w, d, kind=k)
        return rep.finish()
    tier = args.tier
    examples, steps = (60, 40) if tier == "quick" else (1500, 80)
    res = R.pmap(_shard, [(tier, args.seed, k, examples, steps) for k in range(16)], chunksize=1)
    for part in res:
        for s in part["stats"]:
            rep.evaluations += 1
            rep.count("hist", s["variant"])
            if s["nt"]:
                rep.nontrivial.add(s["key"])
                if len(rep.samples) < 6 and len(rep.nontrivial) % 29 == 1:
                    rep.sample({"history": json.loads(s["key"])[:40], "accepted_finalize": s["acc"], "rejected_finalize": s["rej"]})
            if s["inside"]:
                rep.count("regions", "online-finalised-inside-multistep-forward")
            if s["acc"] and s["rej"]:
                rep.count("regions", "accepted-and-rejected-finalize")
            if s["acc"] and not s["online"]:
                rep.count("regions", "offline-noop-finalize-accepted")
        f = part["fail"]
        if f is not None:
            rep.add_violation((f["variant"], f["pred"]), {"ops": f["ops"]}, f["detail"], kind="history")
    box = list(fin_box(tier))
    walks = list(walk_box(tier))
    for part in R.pmap(_fin_box_chunk, R.chunks(walks, 32), chunksize=1):
        rep.evaluations += part["n"]
        for f in part["fails"]:
            rep.add_violation((f["variant"], f["pred"]), {"ops": f["ops"]}, f["detail"], kind="history")
    for ops in walks:
        rep.nontrivial.add("walk:" + json.dumps(ops[:6], sort_keys=True) + str(len(ops)))
    for part in R.pmap(_fin_box_chunk, R.chunks(box, 64), chunksize=1):
        rep.evaluations += part["n"]
        for f in part["fails"]:
            rep.add_violation((f["variant"], f["pred"]), {"ops": f["ops"]}, f["detail"], kind="history")
    for ops in box:
        if ops[0][1]["cls"] == "TwoLevel" and len(ops) > 9:
            rep.nontrivial.add(json.dumps(ops, sort_keys=True))
    rep.exhaustive = [{"box": "finalize(max_n), finalize(max_n+1), finalize(max_n-1) after every action of complete small streams (6 offline classes n<=%d; online classes after an ordinary finalisation, ~3 passes)" % (5 if tier == "quick" else 8),
                       "cases": len(walks), "exhaustive": True},
                      {"box": "online classes (TwoLevel period<=%d), j<=%d next() calls, then finalize(k) for every k in -1..told+1, then 3 next(), observers, finalize(k) again, next()" % (
        (5, 4) if tier == "quick" else (8, 6)), "cases": len(box), "exhaustive": True}]
    R.run_regress(rep, check_witness)
    rep.extra["histories"] = rep.evaluations
    rep.extra["stateful_step_count"] = steps
    rep.assumptions = ["'the forward has been told to advance at least to step n' = n1 of the last Forward emitted in the initial sweep >= n",
                       "'the forward stands at max_n' = reference executor forward position (restart checkpoints restore it, adjoint-data checkpoints leave it undefined)",
                       "Hypothesis shrinks the failing history; histories bounded by stateful_step_count"]

    def shrink(b, w):
        ops = minimize_ops(w["ops"], b[1])
        r = replay_ops(ops)
        if r is None:
            return None
        return {"ops": ops}, r[1]
    return rep.finish(shrink_fn=shrink)

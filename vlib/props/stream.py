"""Stream-monitor properties C01 C02 C03 C04 C08 C11 C12 (+ emitted half of
C18): one sweep (exhaustive boxes + Hypothesis draws, executed on 16 cores by
the reference executor), one predicate family per property."""
from .. import configs as C
from .. import runner as R

PROPS = ("C01", "C02", "C03", "C04", "C08", "C09", "C11", "C12")

C09_WEIGHTS = {"None": 3, "SingleMemory": 7, "SingleDisk": 10, "Multistage": 3, "Mixed": 3, "TwoLevel": 14,
               "Revolve": 2, "DiskRevolve": 2, "PeriodicDiskRevolve": 2, "HRevolve": 3}

RULES = {
    "C01": "non-trivial = stream contains >=1 checkpoint load into WORK and >=1 recomputation Forward after EndForward (storage is a real constraint); distinct = distinct config hash",
    "C02": "non-trivial = n>=3 and at least one recomputation Forward between two Reverse actions of one pass; distinct = distinct config hash",
    "C03": "non-trivial = peak occupancy of RAM or DISK equals its finite declared budget and total units < n-1; distinct = distinct config hash",
    "C04": "non-trivial = at least one checkpoint written to RAM/DISK (label 'disk_restart_copy' = a DISK restart checkpoint loaded by Copy, the leak-prone shape, counted in regions); distinct = distinct config hash",
    "C08": "non-trivial = online schedule finalised inside a multi-step Forward, or adjoint pass >=2 executed, or a recomputation Forward present; distinct = distinct config hash",
    "C09": "every case: flags read before the first next() and after every action, stream driven 3 next() calls past its end; non-trivial = >=2 adjoint passes executed on a multi-pass class (repeat compared tuple-for-tuple with pass 1 and re-executed), or a single-/zero-pass class driven past its end; distinct = distinct config hash",
    "C11": "non-trivial = stream touches both RAM and DISK, or class in {DiskRevolve, PeriodicDiskRevolve, TwoLevel with RAM binomial storage, Multistage with ram>0 and disk>0}; distinct = distinct config hash",
    "C12": "non-trivial = stream contains >=1 checkpoint load into WORK and >=1 recomputation Forward after EndForward; distinct = distinct config hash",
}

SIZES = {  # (hypothesis examples per shard, shards)
    "quick": (260, 16),
    "thorough": (6000, 16),
}


def nontrivial(prop, cfg, r):
    if r.get("status") != "ok" or "actions" not in r:
        return False
    n = cfg["n"]
    if prop in ("C01", "C12"):
        return r["loads"] >= 1 and r["recompute_fwd"] >= 1
    if prop == "C02":
        return n >= 3 and r["recompute_between_reverses"]
    if prop == "C03":
        b = C.budgets(cfg)
        tight = any(bb is not None and bb > 0 and r["peak"][k] == bb for k, bb in (("RAM", b[0]), ("DISK", b[1])))
        return tight and C.total_units(cfg) < n - 1
    if prop == "C04":
        return r["ramwrites"] + r["dwrites"] >= 1
    if prop == "C08":
        return r["fin_inside_multistep"] or r["passes_done"] >= 2 or r["recompute_fwd"] >= 1
    if prop == "C09":
        return r["passes_done"] >= 2 or (C.permitted_passes(cfg) is not None and r.get("completed"))
    if prop == "C11":
        c = cfg["cls"]
        return (r["touched"]["RAM"] and r["touched"]["DISK"]) or c in ("DiskRevolve", "PeriodicDiskRevolve") or \
            (c == "TwoLevel" and cfg["storage"] == "RAM") or (c == "Multistage" and cfg["ram"] > 0 and cfg["disk"] > 0)
    return False


def regions(cfg, r):
    """Region classification of DESIGN 3.6 (what the pinned suite never runs)."""
    out = []
    c = cfg["cls"]
    n = cfg["n"]
    if n == 1:
        out.append("max_n=1")
    if c == "Multistage" and cfg["ram"] > 0 and cfg["disk"] > 0:
        out.append("multistage:ram+disk")
    if c == "Multistage" and cfg["traj"] == "revolve":
        out.append("multistage:revolve-trajectory")
    if c == "TwoLevel":
        if cfg["period"] != 2:
            out.append("twolevel:period!=2")
        if cfg["storage"] == "DISK":
            out.append("twolevel:disk-binomial-storage")
        if cfg["traj"] == "revolve":
            out.append("twolevel:revolve-trajectory")
        if n % cfg["period"]:
            out.append("twolevel:partial-last-block")
    if c == "Mixed" and cfg["storage"] == "RAM":
        out.append("mixed:ram")
    if c in C.REVOLVE_FAMILY:
        uf, ub, wd, rd = cfg.get("c8", C.DEFAULT_C8)
        if uf != ub:
            out.append("revolve-family:uf!=ub")
        if wd != rd:
            out.append("revolve-family:wd!=rd")
        if wd == 0 or rd == 0:
            out.append("revolve-family:free-disk-op")
        if r.get("dwrites", 0) > 0:
            out.append("revolve-family:disk-written")
        if r.get("max_disk_reads", 0) > 1:
            out.append("revolve-family:disk-checkpoint-read-twice")
        if c == "HRevolve" and cfg["s"] <= 2 and cfg["d"] >= 1:
            out.append("hrevolve:few-ram-units")
    if C.total_units(cfg) >= n and c not in C.ONLINE:
        out.append("units>=n")
    if r.get("passes_done", 0) >= 2:
        out.append("pass>=2")
    if r.get("fin_inside_multistep"):
        out.append("finalised-inside-multistep-forward")
    if r.get("copy_from_disk_restart", 0) > 0:
        out.append("disk-restart-checkpoint-loaded-by-copy")
    if cfg.get("late"):
        out.append("finalised-late")
    if cfg.get("np"):
        out.append("numpy-integer-arguments")
    if cfg.get("style"):
        out.append("call-style:" + cfg["style"])
    return out


def _exec(cfg):
    from .. import monitor
    r = monitor.execute(cfg)
    return r


def _shard(job):
    tier, seed, shard, count, weights = job
    cfgs = C.generate(C.sweep_strategy(tier, weights=weights), count, seed * 1000 + shard)
    from .. import monitor
    return [monitor.execute(c) for c in cfgs]


def run_sequence(payload):
    """(in a pristine child) build and carry out the configs in order, in ONE process."""
    from .. import monitor
    out = []
    for cfg in payload["cfgs"]:
        r = monitor.execute(cfg)
        r.pop("trace", None)
        out.append(dict(r))
    return out


def _exec_seqs(seqs):
    from .. import forkserver
    cl = forkserver.client()
    return [(seq, cl.call("vlib.props.stream.run_sequence", {"cfgs": seq})) for seq in seqs]


def sibling_sequences(tier):
    """Ordered pairs of small configs whose parameters coincide except for the class (Revolve
    family) or for ONE parameter that must not leak (RAM/DISK split, storage, trajectory): the
    shape that exposes result caches keyed on too little. Each pair runs in a pristine child."""
    N = 9 if tier == "quick" else 14
    seqs = []
    fam = ("Revolve", "DiskRevolve", "PeriodicDiskRevolve")
    for n in range(2, N + 3):
        for sx in (1, 2, 3):
            for c8 in ([8, 8, 16, 16], [8, 16, 4, 24]):
                cf = {c: {"cls": c, "n": n, "s": sx, "c8": c8, "passes": 1} for c in fam}
                cf["HRevolve"] = {"cls": "HRevolve", "n": n, "s": sx, "d": 0, "c8": c8, "passes": 1}
                for a in cf:
                    for b in cf:
                        if a != b:
                            seqs.append([cf[a], cf[b]])
    # the same class and size under another cost vector (what a table or a pre-pass cached per size forgets)
    for n in range(3, N + 3):
        for sx in (1, 2):
            for c in fam + ("HRevolve",):
                for ca, cb in (([8, 8, 16, 16], [32, 8, 16, 16]), ([8, 8, 16, 16], [8, 8, 64, 64]), ([8, 8, 16, 16], [8, 8, 0, 0]), ([8, 32, 4, 4], [8, 8, 16, 16])):
                    a = {"cls": c, "n": n, "s": sx, "c8": ca, "passes": 1}
                    b = {"cls": c, "n": n, "s": sx, "c8": cb, "passes": 1}
                    if c == "HRevolve":
                        a["d"] = b["d"] = 1
                    seqs.append([a, b])
                    seqs.append([b, a])
    # the single-storage schedules: the other move_data setting, another step count, in one process
    for n in range(1, N + 1):
        cp = {"cls": "SingleDisk", "move": False, "n": n, "passes": 2}
        mv = {"cls": "SingleDisk", "move": True, "n": n, "passes": 1}
        seqs += [[cp, mv], [mv, cp], [cp, dict(mv, n=n + 2)], [mv, dict(cp, n=n + 2)], [dict(mv, n=n + 2), cp],
                 [{"cls": "SingleMemory", "n": n, "passes": 2}, {"cls": "SingleMemory", "n": n + 1, "passes": 2}],
                 [{"cls": "SingleMemory", "n": n + 1, "passes": 1}, cp, {"cls": "None", "n": n, "passes": 0}, mv]]
    for n in range(3, N + 1):
        for tot in (2, 3, 4):
            for tr in ("maximum", "revolve"):
                splits = [(r, tot - r) for r in range(0, tot + 1)]
                for a in splits:
                    for b in splits:
                        if a != b and (a[0] and a[1]) and (b[0] and b[1]):
                            seqs.append([{"cls": "Multistage", "n": n, "ram": a[0], "disk": a[1], "traj": tr, "passes": 1},
                                         {"cls": "Multistage", "n": n, "ram": b[0], "disk": b[1], "traj": tr, "passes": 1}])
                for a in splits:
                    if a[0] and a[1]:
                        seqs.append([{"cls": "Multistage", "n": n, "ram": a[0], "disk": a[1], "traj": tr, "passes": 1},
                                     {"cls": "Multistage", "n": n, "ram": a[0], "disk": a[1], "traj": "revolve" if tr == "maximum" else "maximum", "passes": 1}])
        for sx in (1, 2):
            seqs.append([{"cls": "Mixed", "n": n, "s": sx, "storage": "RAM", "passes": 1}, {"cls": "Mixed", "n": n, "s": sx, "storage": "DISK", "passes": 1}])
            seqs.append([{"cls": "Mixed", "n": n, "s": sx, "storage": "DISK", "passes": 1}, {"cls": "Mixed", "n": n, "s": sx, "storage": "RAM", "passes": 1}])
        for p in (2, 3):
            a = {"cls": "TwoLevel", "period": p, "b": 1, "storage": "RAM", "traj": "maximum", "n": n, "passes": 2}
            for k, v in (("storage", "DISK"), ("traj", "revolve"), ("b", 2), ("period", p + 1)):
                b = dict(a)
                b[k] = v
                seqs.append([a, b])
                seqs.append([b, a])
    return seqs


def _compact(r):
    r.pop("trace", None)
    return r


def sweep(tier, seed, weights=None):
    count, shards = SIZES[tier]
    boxcfgs = list(C.box(tier)) + list(C.late_finalisation_box(tier)) + list(C.numpy_typed_box(tier)) + list(C.iter_driver_box(tier)) + list(C.call_style_box(tier)) + list(C.deep_repeat_probes(tier))
    box_results = R.pmap(_exec, boxcfgs)
    gen = R.pmap(_shard, [(tier, seed, s, count, weights) for s in range(shards)], chunksize=1)
    gen_results = [r for part in gen for r in part]
    seqs = sibling_sequences(tier) + [[c] for c in C.large_n_probes(tier)]     # large-n probes: cold cache, one pristine child each
    seq_results = [x for part in R.pmap(_exec_seqs, R.chunks(seqs, 64), chunksize=1) for x in part]
    return boxcfgs, box_results, gen_results, seq_results


def run(prop, args):
    rep = R.Report(prop, args, RULES[prop])
    if args.replay:
        return replay(prop, args, rep)
    boxcfgs, box_results, gen_results, seq_results = sweep(args.tier, args.seed, C09_WEIGHTS if prop == "C09" else None)
    N = 10 if args.tier == "quick" else 24
    rep.exhaustive = [{"box": "every class variant, n<=%d, all unit counts 0..n+1 (HRevolve RAM<=6, DISK<=4), all splits/trajectories/storages, period<=6, binomial_snapshots<=4, 6 cost vectors" % N,
                       "cases": len(boxcfgs) - 4, "exhaustive": True},
                      {"box": "large-n probes, each in a pristine process (cold memo tables): 19 configs per n in %s, plus 10 many-units probes (hundreds of checkpointing units)" % (list(C.LARGE_N) + ([] if args.tier == "quick" else [401, 512, 513, 2000])),
                       "cases": len(list(C.large_n_probes(args.tier))), "exhaustive": True},
                      {"box": "deep repetition probes: %d adjoint passes (beyond the default recursion limit) on SingleMemory, SingleDisk(copy), TwoLevel x2" % (
                          1300 if args.tier == "quick" else 5000), "cases": 4, "exhaustive": True}]
    rep.extra["generated_cases"] = len(gen_results)
    rep.extra["box_cases"] = len(box_results)
    seen = set()
    for r in box_results + gen_results:
        cfg = r["cfg"]
        rep.evaluations += 1
        if r["status"] == "inconclusive":
            rep.inconclusive += 1
            continue
        h = C.chash(cfg)
        first = h not in seen
        seen.add(h)
        rep.count("hist", C.variant(cfg))
        if first:
            for reg in regions(cfg, r):
                rep.count("regions", reg)
        if nontrivial(prop, cfg, r):
            rep.nontrivial.add(h)
            if len(rep.samples) < 8 and (len(rep.nontrivial) % 97 == 1):
                rep.sample(sample_of(cfg, r))
        hit = set()
        for (p, pred, detail) in r["viol"]:
            if p == prop and pred not in hit:
                hit.add(pred)
                rep.add_violation((C.variant(cfg), pred), cfg, detail)
    rep.extra["distinct_configs"] = len(seen)
    # ordered sibling pairs, each in a pristine child (history-dependent defects, reproducibly)
    for seq, results in seq_results:
        for i, r in enumerate(results):
            rep.evaluations += 1
            if r["status"] == "inconclusive":
                rep.inconclusive += 1
                continue
            hit = set()
            for (p, pred, detail) in r["viol"]:
                if p == prop and pred not in hit:
                    hit.add(pred)
                    if i == 0:
                        rep.add_violation((C.variant(r["cfg"]), pred), r["cfg"], detail)
                    else:
                        rep.add_violation((C.variant(r["cfg"]), pred), {"sequence": seq[:i + 1]}, detail + " [after %s in the same process]" % C.describe(seq[0]), kind="sequence")
    rep.extra["sibling_sequences"] = len(seq_results) - len(list(C.large_n_probes(args.tier)))
    rep.exhaustive.append({"box": "ordered sibling pairs (equal parameters, other Revolve-family class; same class and size under another cost vector; other RAM/DISK split, storage, trajectory, period, unit count), each pair in one pristine process",
                           "cases": len(seq_results) - len(list(C.large_n_probes(args.tier))), "exhaustive": True})
    R.run_regress(rep, lambda data: check_witness(prop, data))
    if not rep.samples:
        for r in gen_results[:5]:
            if "actions" in r:
                rep.sample(sample_of(r["cfg"], r))
    need = {"C01": [], "C02": [], "C03": [], "C04": ["disk-restart-checkpoint-loaded-by-copy"],
            "C08": ["pass>=2", "finalised-inside-multistep-forward"], "C09": ["pass>=2"], "C11": ["multistage:ram+disk"], "C12": []}
    base_regions = ["multistage:ram+disk", "twolevel:period!=2", "twolevel:disk-binomial-storage", "twolevel:revolve-trajectory",
                    "revolve-family:uf!=ub", "revolve-family:disk-written", "max_n=1", "units>=n", "pass>=2"]
    missing = [g for g in base_regions if rep.regions.get(g, 0) == 0]
    if missing:
        R.harness_error("generator reached none of: %s" % missing)
    if prop == "C01" and args.tier == "thorough":
        fuzz_audit(rep, args)
    rep.assumptions = [
        "stream semantics = maintainers' executor in tests/test_validity.py, extended to all passes/storages (DESIGN 2.2)",
        "online schedules are finalised by the driver as soon as a Forward reaches the true step count n",
        "adjoint passes permitted per class taken from the class docstrings, not from is_exhausted",
    ]
    return rep.finish(shrink_fn=lambda b, w: shrink(prop, b, w))


def fuzz_audit(rep, args, runs=15000, procs=16):
    """Secondary engine (DESIGN 7): 16 independent atheris/libFuzzer campaigns over the
    byte-decoded config space with the reference executor as in-target oracle. Audits generator
    reach with coverage feedback; any violating input goes through the normal bucket/shrink path."""
    import json
    import os
    import shutil
    import subprocess
    import sys
    import tempfile
    deps = os.path.join(R.VERIF, ".deps")
    env = dict(os.environ)
    env["PYTHONPATH"] = os.pathsep.join([R.VERIF, deps, env.get("PYTHONPATH", "")])
    probe = subprocess.run([sys.executable, "-c", "import atheris"], env=env, capture_output=True)
    if probe.returncode != 0:
        rep.extra["atheris"] = "not importable (setup.sh could not install the wheel); secondary engine skipped"
        return
    base = tempfile.mkdtemp(prefix="verif_fuzz_")
    try:
        ps = []
        for k in range(procs):
            out = os.path.join(base, "f%d" % k)
            ps.append((out, subprocess.Popen([sys.executable, "-m", "vlib.fuzz_c01", out, "-runs=%d" % runs, "-seed=%d" % (args.seed * 100 + k + 1),
                                              "-max_len=64", "-print_final_stats=0"], cwd=R.VERIF, env=env,
                                             stdout=subprocess.DEVNULL, stderr=subprocess.DEVNULL)))
        total = {"executions": 0, "distinct": 0, "violating_inputs": 0, "by_class": {}}
        viol_cfgs = []
        for out, pr in ps:
            try:
                pr.wait(timeout=3600)
            except subprocess.TimeoutExpired:
                pr.kill()
            try:
                st = json.load(open(os.path.join(out, "stats.json")))
            except Exception:
                continue
            total["executions"] += st["executions"]
            total["distinct"] += st["distinct"]
            for c, v in st["by_class"].items():
                total["by_class"][c] = total["by_class"].get(c, 0) + v
            vf = os.path.join(out, "violations.jsonl")
            if os.path.exists(vf):
                for line in open(vf):
                    viol_cfgs.append(json.loads(line)["cfg"])
        total["violating_inputs"] = len(viol_cfgs)
        rep.extra["atheris"] = total
        rep.evaluations += total["executions"]
        for cfg in viol_cfgs[:200]:
            for b, w, d, k in check_witness(rep.prop, {"witness": cfg}):
                rep.add_violation(b, w, d, kind=k)
    finally:
        shutil.rmtree(base, ignore_errors=True)


def sample_of(cfg, r):
    return {"config": cfg, "call": C.describe(cfg), "actions": r.get("actions"), "stream_digest": r.get("digest"),
            "first_actions": r.get("head"), "forward_steps": r.get("fsteps"), "disk_writes": r.get("dwrites"),
            "disk_loads": r.get("dreads"), "peak": r.get("peak"), "passes": r.get("passes_done")}


def violates(prop, cfg, bucket):
    from .. import monitor
    r = monitor.execute(cfg)
    for (p, pred, detail) in r["viol"]:
        if p == prop and (C.variant(cfg), pred) == tuple(bucket):
            return detail
    return None


def shrink(prop, bucket, witness):
    if "sequence" in witness:
        last = witness["sequence"][-1]
        solo = R.pristine_call("vlib.props.stream.run_sequence", {"cfgs": [last]})
        for (p, pred, detail) in solo[0]["viol"]:
            if p == prop and (C.variant(last), pred) == tuple(bucket):
                return last, detail
        return None
    if violates(prop, witness, bucket) is None:
        # seen in a worker that had run other schedules before, not reproducible from this config
        # alone: the violation depends on process history (C15's kind of defect). Keep the witness
        # and the detail recorded by the sweep; the replay file is marked accordingly.
        return None
    small = C.shrink(witness, lambda c: violates(prop, c, bucket) is not None)
    return small, violates(prop, small, bucket) or ""


def check_witness(prop, data, show=False):
    cfg = data["witness"]
    if data.get("kind") == "sequence" or (isinstance(cfg, dict) and "sequence" in cfg):
        seq = cfg["sequence"]
        results = R.pristine_call("vlib.props.stream.run_sequence", {"cfgs": seq})
        if show:
            print("replaying sequence in one fresh process: " + " ; then ".join(C.describe(c) for c in seq))
        out = []
        hit = set()
        for (p, pred, detail) in results[-1]["viol"]:
            if p == prop and pred not in hit:
                hit.add(pred)
                out.append(((C.variant(seq[-1]), pred), cfg, detail + " [after %s in the same process]" % C.describe(seq[0]), "sequence"))
        return out
    from .. import monitor
    r = monitor.execute(cfg, want_trace=True)
    if show:
        print("replaying %s" % C.describe(cfg))
        for i, t in enumerate(r.get("trace", [])[:60]):
            from ..lib import fmt
            print("  #%d %s" % (i + 1, fmt(t)))
    out = []
    hit = set()
    for (p, pred, detail) in r["viol"]:
        if p == prop and pred not in hit:
            hit.add(pred)
            out.append(((C.variant(cfg), pred), cfg, detail, "config"))
    return out


def replay(prop, args, rep):
    data = R.load_replay(args.replay)
    rep.evaluations = 1
    for b, w, d, k in check_witness(prop, data, show=True):
        rep.add_violation(b, w, d, kind=k)
    return rep.finish()

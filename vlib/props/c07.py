"""C07 - the H-Revolve family achieves its cost optimum for any cost vector.

Oracles:
  * opt_hier: exhaustive Dijkstra over all executable schedules (small n)
      HRevolve == opt_hier(n, c_ram, c_disk); Revolve == opt_hier(n, c_ram, 0);
      DiskRevolve == opt_hier(n, c_ram, unbounded disk, read once)
  * HierDP: independent recurrences (validated against the search in-run)
  * metamorphic relations of the statement, any n:
      cost(HRevolve d) <= cost(HRevolve d') for d > d'; cost(DiskRevolve) <= cost(Revolve);
      cost(PeriodicDiskRevolve) >= cost(DiskRevolve)
Costs are integer eighths: the library's float DP is exact on them and every
comparison below is exact (no tolerance).
"""
from .. import configs as C
from .. import oracles as O
from .. import runner as R

RULE = ("cases = (n, RAM units, DISK units, uf, ub, wd, rd) groups, each group runs HRevolve at DISK units d and d-1.., Revolve, DiskRevolve, "
        "PeriodicDiskRevolve; exhaustive small box against the exhaustive search + Hypothesis draws against the DP; non-trivial = (uf != ub or wd != rd) and the "
        "HRevolve or DiskRevolve stream writes to DISK; distinct = distinct (n, s, d, costs) group")

SEARCH_C8 = [[8, 8, 16, 16], [8, 80, 16, 16], [80, 8, 16, 16], [8, 16, 24, 4], [8, 8, 0, 0], [16, 8, 4, 40], [8, 24, 8, 0], [24, 8, 0, 8]]


def _measure(cfg):
    from .. import monitor
    r = monitor.execute(cfg)
    if r["status"] == "inconclusive":
        return None, "inconclusive", r
    if r["status"] != "ok" or not r.get("completed"):
        return None, "%s: no complete stream (%s)" % (C.describe(cfg), r.get("lib_exc") or r["viol"][:1]), r
    return O.stream_cost(cfg["c8"], cfg["n"], r["fsteps"], r["dwrites"], r["dreads"]), None, r


def _group(job):
    """One (n, s, d, c8) group; mode 'search' or 'dp'."""
    n, s, d, c8, mode = job
    uf, ub, wd, rd = c8
    out = {"job": [n, s, d, c8, mode], "viol": [], "status": "ok", "disk_used": False}
    den = 8
    style = None
    if ":" in mode:                      # "dp:ci": the constructor call written another way (configs.STYLES)
        mode, style = mode.split(":")
    if "/" in mode:                      # "dp/10": numerators over another denominator (decimal / rescaled costs)
        mode, den = mode.split("/")
        den = int(den)

    def bad(pred, cfg, detail):
        out["viol"].append((pred, cfg, detail))

    costs = {}
    cfgs = {
        "H": {"cls": "HRevolve", "n": n, "s": s, "d": d, "c8": c8, "passes": 1},
        "R": {"cls": "Revolve", "n": n, "s": s, "c8": c8, "passes": 1},
        "D": {"cls": "DiskRevolve", "n": n, "s": s, "c8": c8, "passes": 1},
    }
    if C.period_closed_form(s, c8) <= C.PERIOD_CAP:
        cfgs["P"] = {"cls": "PeriodicDiskRevolve", "n": n, "s": s, "c8": c8, "passes": 1}
    if d > 0:
        cfgs["H-"] = {"cls": "HRevolve", "n": n, "s": s, "d": d - 1, "c8": c8, "passes": 1}
        cfgs["H0"] = {"cls": "HRevolve", "n": n, "s": s, "d": 0, "c8": c8, "passes": 1}
    for k, cfg in cfgs.items():
        if den != 8:
            cfg["den"] = den
        if style:
            cfg["style"] = style
        cst, err, r = _measure(cfg)
        if err == "inconclusive":
            out["status"] = "inconclusive"
            return out
        if err:
            bad("stream-incomplete", cfg, err)
            continue
        costs[k] = cst
        if k in ("H", "D") and r["dwrites"] > 0:
            out["disk_used"] = True
        if k == "H":
            out["head"] = r["head"]
            out["digest"] = r["digest"]
    if mode == "search":
        oh = O.opt_hier(n, s, d, uf, ub, wd, rd)
        orv = O.opt_hier(n, s, 0, uf, ub, wd, rd)
        od = O.opt_hier(n, s, 0, uf, ub, wd, rd, read_once=True, disk_unbounded=True)
        dp = O.HierDP(s, d, uf, ub, wd, rd)
        if (dp.hopt(n), dp.ropt(n), dp.dopt(n)) != (oh, orv, od):
            out["oracle_mismatch"] = "n=%d s=%d d=%d c8=%s search=(%s,%s,%s) dp=(%s,%s,%s)" % (n, s, d, c8, oh, orv, od, dp.hopt(n), dp.ropt(n), dp.dopt(n))
            return out
    else:
        dp = O.HierDP(s, d, uf, ub, wd, rd)
        oh, orv, od = dp.hopt(n), dp.ropt(n), dp.dopt(n)
    out["opt"] = [oh, orv, od]
    out["cost"] = costs

    def f(x):
        return "%.12g" % (x / den)
    if "H" in costs and costs["H"] != oh:
        bad("hrevolve-not-optimal", cfgs["H"], "%s costs %s, optimum of the hierarchical problem is %s" % (C.describe(cfgs["H"]), f(costs["H"]), f(oh)))
    if "R" in costs and costs["R"] != orv:
        bad("revolve-not-optimal", cfgs["R"], "%s costs %s, memory-only optimum is %s" % (C.describe(cfgs["R"]), f(costs["R"]), f(orv)))
    if "D" in costs and costs["D"] != od:
        bad("diskrevolve-not-optimal", cfgs["D"], "%s costs %s, Disk-Revolve optimum is %s" % (C.describe(cfgs["D"]), f(costs["D"]), f(od)))
    if "H" in costs and "H-" in costs and costs["H"] > costs["H-"]:
        bad("more-disk-costs-more", cfgs["H"], "%s costs %s but with %d disk units %s" % (C.describe(cfgs["H"]), f(costs["H"]), d - 1, f(costs["H-"])))
    if "H" in costs and "H0" in costs and costs["H"] > costs["H0"]:
        bad("more-disk-costs-more", cfgs["H"], "%s costs %s but with 0 disk units %s" % (C.describe(cfgs["H"]), f(costs["H"]), f(costs["H0"])))
    if "D" in costs and "R" in costs and costs["D"] > costs["R"]:
        bad("diskrevolve-worse-than-revolve", cfgs["D"], "%s costs %s, Revolve %s" % (C.describe(cfgs["D"]), f(costs["D"]), f(costs["R"])))
    if "P" in costs and "D" in costs and costs["P"] < costs["D"]:
        bad("periodic-cheaper-than-diskrevolve", cfgs["P"], "%s costs %s, DiskRevolve %s" % (C.describe(cfgs["P"]), f(costs["P"]), f(costs["D"])))
    return out


def _table_scan(job):
    """Dense, cheap search for sub-problems whose tabulated optimum differs from the independent DP:
    the library's cost tables (internal helpers named in the property's anchors) hold, for all l <= L
    at once, opt[l] = optimum(l+1 steps) - (l+1)*uf. Candidates only - each is CONFIRMED by running
    the stream. If the helpers are renamed/removed the scan is skipped (recorded in the evidence)."""
    s_ram, d_max, c8, L = job
    uf, ub, wd, rd = [x / 8 for x in c8]
    from .. import lib
    try:
        from checkpoint_schedules.hrevolve_sequences.hrevolve import get_hopt_table
        from checkpoint_schedules.hrevolve_sequences.revolve import get_opt_0_table
        from checkpoint_schedules.hrevolve_sequences.disk_revolve import get_opt_inf_table
        optp, opt = lib.quiet(get_hopt_table, L, (s_ram, d_max), [0, wd], [0, rd], uf, ub)
        o0 = lib.quiet(get_opt_0_table, L, s_ram, uf, ub)
        oi = lib.quiet(get_opt_inf_table, L, s_ram, uf, ub, rd, wd, True)
    except Exception as e:
        return {"unavailable": "%s: %s" % (type(e).__name__, e), "entries": 0, "cands": []}
    cands = []
    entries = 0
    for m in range(0, d_max + 1):
        dp = O.HierDP(s_ram, m, *c8)
        for l in range(1, L + 1):
            entries += 1
            try:
                if round(opt[1][l][m] * 8) != dp.hopt(l + 1) - (l + 1) * c8[0] or opt[1][l][m] * 8 != round(opt[1][l][m] * 8):
                    cands.append((l + 1, s_ram, m, list(c8), "dp"))
            except Exception:
                cands.append((l + 1, s_ram, m, list(c8), "dp"))
    dp = O.HierDP(s_ram, 0, *c8)
    for l in range(1, L + 1):
        entries += 2
        try:
            if o0[s_ram][l] * 8 != dp.ropt(l + 1) - (l + 1) * c8[0] or oi[l] * 8 != dp.dopt(l + 1) - (l + 1) * c8[0]:
                cands.append((l + 1, s_ram, 0, list(c8), "dp"))
        except Exception:
            cands.append((l + 1, s_ram, 0, list(c8), "dp"))
    return {"entries": entries, "cands": cands[:40]}


def _gen(job):
    tier, seed, count = job
    from hypothesis import strategies as st
    S = C.strategies(tier)
    nmax = 64 if tier == "quick" else 300

    @st.composite
    def groups(draw):
        n = draw(st.one_of(st.integers(2, 16), st.integers(2, 40), st.integers(2, nmax)))
        s = draw(st.one_of(st.integers(1, 2), st.integers(1, 3), st.integers(1, 6)))
        d = draw(st.one_of(st.integers(0, 3), st.integers(1, 6)))
        return (n, s, d, tuple(draw(S["_c8"])), "dp")
    seen = []
    for g in C.generate(groups(), count, seed):
        g = (g[0], g[1], g[2], list(g[3]), g[4])
        if g not in seen:
            seen.append(g)
    return seen


def check_witness(data, show=False):
    g = list(data["witness"]["group"])
    if "/" not in g[4] and max(g[3]) < 10 ** 6:
        g[4] = ("dp" if g[0] > 10 else "search") + (":" + g[4].split(":")[1] if ":" in g[4] else "")
    out = _group(tuple(g))
    if "oracle_mismatch" in out:
        R.harness_error("oracles disagree on replay: %s" % out["oracle_mismatch"])
    if show:
        print("replaying group %s: costs(eighths)=%s optimum(H,R,D)=%s" % (g, out.get("cost"), out.get("opt")))
    return [((C.variant(cfg), pred), {"group": out["job"], "config": cfg}, detail, "group") for pred, cfg, detail in out["viol"]]


def run(prop, args):
    rep = R.Report(prop, args, RULE)
    if args.replay:
        rep.evaluations = 1
        for b, w, d, k in check_witness(R.load_replay(args.replay), show=True):
            rep.add_violation(b, w, d, kind=k)
        return rep.finish()
    tier = args.tier
    if tier == "quick":
        NS, SR, SD = 7, 2, 2
    else:
        NS, SR, SD = 9, 3, 3
    jobs = [(n, s, d, c8, "search") for n in range(1, NS + 1) for s in range(1, SR + 1) for d in range(0, SD + 1) for c8 in SEARCH_C8]
    nsearch = len(jobs)
    # dense DP grid: defects of a DP / of the sequence builder are sparse in (n, units, costs)
    ND = 30 if tier == "quick" else 64
    grid = [(n, s, d, c8, "dp") for n in range(NS + 1, ND + 1) for s in (1, 2, 3) for d in (0, 1, 2, 3)
            for c8 in ([8, 8, 16, 16], [8, 16, 24, 4], [16, 8, 4, 40], [8, 24, 8, 0], [24, 8, 0, 8], [8, 8, 32, 32])]
    jobs += grid
    # expensive disk (ratio (wd+rd)/uf from 12.5 to 40): few RAM units, one disk unit, every n
    NE = 70 if tier == "quick" else 130
    grid2 = [(n, s, 1, c8, "dp") for n in range(8, NE + 1) for s in (1, 2, 3)
             for c8 in ([8, 8, 50, 50], [8, 8, 80, 80], [8, 8, 160, 160], [8, 8, 16, 160], [8, 16, 256, 256])]
    jobs += grid2
    # one-decimal (inexact in binary) cost vectors: every schedule cost is a multiple of 0.1, so a rounding
    # error can only flip ties - the exact (integer-tenths) optimum must still be met exactly
    ND10 = 28 if tier == "quick" else 60
    grid10 = [(n, s, d, c10, "dp/10") for n in range(2, ND10 + 1) for s in (1, 2, 3) for d in (0, 1, 2)
              for c10 in ([10, 10, 21, 23], [10, 10, 3, 3], [7, 13, 21, 5], [3, 10, 9, 11], [10, 10, 20, 20])]
    jobs += grid10
    # the same problems in other cost units (x 2**40 and x 2**-40: exact rescalings, the optimum scales along)
    gridsc = []
    for n in (3, 5, 12, 23, 40, 64):
        for s_ in (1, 2):
            for d in (0, 2):
                for c8 in ([8, 8, 16, 16], [8, 16, 24, 4], [24, 8, 4, 40]):
                    gridsc.append((n, s_, d, [x << 40 for x in c8], "dp"))
                    gridsc.append((n, s_, d, list(c8), "dp/%d" % (8 << 40)))
    jobs += gridsc
    # extreme ratios between the four costs (2**30): still exact in floating point
    gridx = [(n, s_, d, c8, "dp") for n in (4, 9, 16, 30, 48) for s_ in (1, 2, 3) for d in (0, 1, 2)
             for c8 in ([1, 1 << 30, 16, 16], [1 << 30, 1, 16, 16], [8, 8, 1 << 30, 1], [8, 8, 1, 1 << 30], [1 << 20, 8, 1 << 24, 1 << 22])]
    jobs += gridx
    # the same cost vector with its integral components passed as Python ints (uf=1, ub=1 are the
    # signature defaults: int step costs next to fractional ones are what a user writes), as
    # numpy.float64, by keyword, with defaults omitted: the parameters are equal, so is the optimum
    NCI = 22 if tier == "quick" else 48
    gridci = [(n, s_, d, c8, "dp:ci") for n in range(2, NCI + 1) for s_ in (1, 2) for d in (0, 1, 2)
              for c8 in ([2, 8, 0, 8], [4, 8, 16, 16], [12, 8, 16, 8], [8, 4, 16, 16], [8, 12, 4, 16], [8, 8, 4, 12], [8, 8, 16, 20], [16, 8, 12, 8], [6, 16, 8, 24])]
    gridci += [(n, s_, d, c8, "dp:" + st_) for n in (3, 4, 7, 12, 19) for s_ in (1, 2) for d in (0, 2) for st_ in ("npf", "kw", "kwr", "pkr", "dflt")
               for c8 in ([8, 8, 16, 16], [4, 8, 16, 16], [8, 12, 16, 16], [8, 8, 4, 16], [8, 8, 16, 12])]
    jobs += gridci
    LT = 100 if tier == "quick" else 260
    scan_c8 = SEARCH_C8 + [[8, 8, 32, 32], [8, 8, 64, 64], [12, 8, 188, 45], [4, 8, 64, 8], [8, 4, 8, 64], [16, 16, 16, 64]]
    scan = R.pmap(_table_scan, [(sr, 4, c8, LT) for sr in (1, 2, 3) for c8 in scan_c8], chunksize=1)
    unavailable = [x["unavailable"] for x in scan if "unavailable" in x]
    cand = []
    for x in scan:
        for g in x["cands"]:
            if g not in cand:
                cand.append(g)
    rep.extra["table_scan"] = {"entries": sum(x["entries"] for x in scan), "l_max": LT, "cost_vectors": len(scan_c8),
                               "candidates_confirmed_by_stream": len(cand), "unavailable": unavailable[:1]}
    jobs += cand[:200]
    seen = set((g[0], g[1], g[2], tuple(g[3])) for g in jobs)
    jobs += [g for g in _gen((tier, args.seed, 900 if tier == "quick" else 6000)) if (g[0], g[1], g[2], tuple(g[3])) not in seen]
    res = R.pmap(_group, jobs, chunksize=2)
    mism = [o["oracle_mismatch"] for o in res if "oracle_mismatch" in o]
    if mism:
        R.harness_error("hierarchical oracles disagree (search vs dp): %s" % mism[:3])
    rep.exhaustive = [{"box": "n<=%d, RAM units<=%d, DISK units<=%d, %d cost vectors, compared with exhaustive search over all executable schedules" % (NS, SR, SD, len(SEARCH_C8)),
                       "cases": nsearch, "exhaustive": True},
                      {"box": "n in %d..%d, RAM units 1..3, DISK units 0..3, 6 cost vectors, compared with the DP" % (NS + 1, ND), "cases": len(grid), "exhaustive": True},
                      {"box": "expensive disk: n in 8..%d, RAM units 1..3, 5 cost vectors with (wd+rd)/uf in 12.5..64" % NE, "cases": len(grid2), "exhaustive": True},
                      {"box": "one-decimal (non-dyadic) cost vectors: n in 2..%d, RAM 1..3, DISK 0..2, 5 vectors, exact comparison in tenths" % ND10, "cases": len(grid10), "exhaustive": True},
                      {"box": "cost units rescaled by 2**40 and 2**-40: 6 n x 2 RAM x 2 DISK x 3 vectors", "cases": len(gridsc), "exhaustive": True},
                      {"box": "extreme cost ratios (2**30 between two of the four costs): 5 n x 3 RAM x 3 DISK x 5 vectors", "cases": len(gridx), "exhaustive": True},
                      {"box": "call styles: integral cost components as Python ints next to fractional ones (n<=%d, RAM 1..2, DISK 0..2, 9 vectors); costs as numpy.float64, all-keyword and defaults-omitted calls (5 n x 2 x 2 x 5 vectors)" % NCI, "cases": len(gridci), "exhaustive": True}]
    rep.extra["oracle_selfcheck"] = {"search_vs_dp_groups": nsearch}
    for out in res:
        n, s, d, c8, mode = out["job"]
        rep.evaluations += len(out.get("cost", {})) or 1
        if out["status"] == "inconclusive":
            rep.inconclusive += 1
            continue
        rep.count("hist", mode)
        asym = c8[0] != c8[1] or c8[2] != c8[3]
        if asym and out["disk_used"]:
            rep.nontrivial.add((n, s, d, tuple(c8)))
            if len(rep.nontrivial) % 101 == 1:
                rep.sample({"group": out["job"], "costs_in_eighths": out.get("cost"), "optimum_H_R_D_in_eighths": out.get("opt"),
                            "hrevolve_stream_digest": out.get("digest"), "hrevolve_first_actions": out.get("head")})
        if c8[0] != c8[1]:
            rep.count("regions", "uf!=ub")
        if out["disk_used"]:
            rep.count("regions", "disk-written")
        for pred, cfg, detail in out["viol"]:
            rep.add_violation((C.variant(cfg), pred), {"group": out["job"], "config": cfg}, detail, kind="group")
    R.run_regress(rep, check_witness)
    rep.assumptions = ["optimum over all schedules established by exhaustive search for n<=%d; beyond that by DP validated against the search" % NS,
                       "costs on the dyadic grid k/8 (library float arithmetic exact, comparisons without tolerance); arbitrary floats not generated"]

    def shrink(b, w):
        pred = b[1]

        def fails_group(g):
            return any(p == pred for p, _, _ in _group(tuple(g))["viol"])
        n, s, d, c8, mode = w["group"]
        cur = {"cls": "HRevolve", "n": n, "s": s, "d": d, "c8": list(c8), "passes": 1}
        sty = ""
        if ":" in mode:
            mode, sty = mode.split(":")
            sty = ":" + sty
        dmode = "dp" + ("/" + mode.split("/")[1] if "/" in mode else "") + sty
        if "/" in mode or max(c8) > 10 ** 6:
            # decimal / rescaled units: shrink n and the unit counts only, keep the cost vector
            def fails(c):
                return c["c8"] == list(c8) and fails_group((c["n"], c["s"], c["d"], c["c8"], dmode))
        else:
            def fails(c):
                return fails_group((c["n"], c["s"], c["d"], c["c8"], dmode))
        small = C.shrink(cur, fails, budget=150)
        g = [small["n"], small["s"], small["d"], small["c8"], dmode]
        o = _group(tuple(g))
        hit = [(cfg, det) for p, cfg, det in o["viol"] if p == pred]
        if not hit:
            return None
        return {"group": g, "config": hit[0][0]}, hit[0][1]
    return rep.finish(shrink_fn=shrink)

"""Runner infrastructure: sharded execution, bucketing, known findings,
shrinking, replay files, evidence, exit codes (DESIGN 3.2, 3.5)."""
import argparse
import json
import multiprocessing as mp
import os
import sys
import time
import traceback

from . import configs as C

VERIF = os.path.dirname(os.path.dirname(os.path.abspath(__file__)))
NPROC = int(os.environ.get("VERIF_NPROC", "16"))


def parse(argv):
    ap = argparse.ArgumentParser(prog="check")
    ap.add_argument("prop")
    ap.add_argument("--tier", default=os.environ.get("VERIF_TIER") or "quick", choices=["quick", "thorough"])
    ap.add_argument("--replay", default=None)
    ap.add_argument("--seed", type=int, default=None)
    a = ap.parse_args(argv)
    if a.seed is None:
        try:
            a.seed = int(os.environ.get("VERIF_SEED", "1") or "1")
        except ValueError:
            a.seed = 1
    return a


def harness_error(msg):
    sys.stdout.flush()
    sys.stderr.write("HARNESS-ERROR: %s\n" % msg)
    sys.stderr.flush()
    sys.exit(2)


# ---------------------------------------------------------------------------
# process pool
# ---------------------------------------------------------------------------

_POOL = None


def pool():
    global _POOL
    if _POOL is None:
        ctx = mp.get_context("fork")
        _POOL = ctx.Pool(NPROC)
    return _POOL


def close_pool():
    global _POOL
    if _POOL is not None:
        _POOL.terminate()
        _POOL.join()
        _POOL = None


def _guard(job):
    """Run a chunk of items through fn; harness exceptions travel back as data."""
    fn, args = job
    out = []
    for idx, arg in args:
        try:
            out.append(("ok", fn(arg), idx))
        except (Exception, SystemExit):
            out.append(("err", traceback.format_exc(), idx))
            break
    return out


RETRY_CASE_S = 480          # guard of a re-run, and at the same time the budget of ALL re-runs of one check
RETRY_SPENT = [0.0]


def retry_guard():
    """Seconds a re-run may still take (0: budget used up, the case stays inconclusive). A tree on which
    many cases hang must not turn the re-runs into hours."""
    left = int(RETRY_CASE_S - RETRY_SPENT[0])
    return left if left >= 30 else 0


def _retry_one(job):
    """Re-run one item alone with a long per-case guard (the first attempt hit the guard)."""
    fn, arg, guard = job
    old = os.environ.get("VERIF_CASE_S")
    os.environ["VERIF_CASE_S"] = str(guard)
    os.environ["VERIF_DEADLINE"] = str(time.time() + guard)
    try:
        return ("ok", fn(arg))
    except (Exception, SystemExit):
        return ("err", traceback.format_exc())
    finally:
        os.environ.pop("VERIF_DEADLINE", None)
        if old is None:
            os.environ.pop("VERIF_CASE_S", None)
        else:
            os.environ["VERIF_CASE_S"] = old


def _has_inconclusive(val, depth=0):
    if isinstance(val, dict):
        if val.get("status") == "inconclusive":
            return True
        return depth < 2 and any(_has_inconclusive(v, depth + 1) for v in val.values() if isinstance(v, (list, tuple, dict)))
    if isinstance(val, (list, tuple)):
        return depth < 3 and any(_has_inconclusive(v, depth + 1) for v in val if isinstance(v, (list, tuple, dict)))
    return False


RETRIED = [0]
SHRINK_CASE_S = 20
SHRINK_TOTAL_S = 600


def pmap(fn, items, chunksize=None):
    """Parallel unordered map. A harness exception in a worker is exit 2; so is a pool that
    stops delivering (e.g. a worker killed from outside) - never a hang, never a VIOLATION."""
    items = list(items)
    if not items:
        return []
    if chunksize is None:
        chunksize = max(1, min(64, len(items) // (NPROC * 8) or 1))
    jobs = [(fn, list(enumerate(items))[i:i + chunksize]) for i in range(0, len(items), chunksize)]
    out = []
    again = []
    it = pool().imap_unordered(_guard, jobs, 1)      # chunksize 1 => IMapIterator with next(timeout)
    stall = int(os.environ.get("VERIF_STALL_S", "2400"))
    while True:
        try:
            part = it.next(timeout=stall)
        except StopIteration:
            break
        except mp.TimeoutError:
            close_pool()
            harness_error("process pool delivered no result for %d s (worker died or job stuck)" % stall)
        for tag, val, idx in part:
            if tag == "err":
                close_pool()
                harness_error("worker raised:\n" + val)
            if _has_inconclusive(val):
                again.append((idx, val))       # the per-case guard fired (transient load?): retried below, alone
            else:
                out.append(val)
    for idx, first in again:
        guard = retry_guard()
        if not guard:
            out.append(first)
            continue
        RETRIED[0] += 1
        t0 = time.time()
        try:
            tag, val = pool().apply_async(_retry_one, ((fn, items[idx], guard),)).get(timeout=stall)
        except mp.TimeoutError:
            close_pool()
            harness_error("retry of a case that hit the wall-clock guard delivered no result for %d s" % stall)
        RETRY_SPENT[0] += time.time() - t0
        if tag == "err":
            close_pool()
            harness_error("worker raised:\n" + val)
        out.append(val)
    return out


def chunks(seq, k):
    seq = list(seq)
    return [seq[i::k] for i in range(k) if seq[i::k]]


# ---------------------------------------------------------------------------
# known findings
# ---------------------------------------------------------------------------

def load_known():
    p = os.path.join(VERIF, "known_findings.json")
    if not os.path.exists(p):
        return []
    with open(p) as f:
        return json.load(f).get("findings", [])


def match_known(known, prop, bucket):
    """A 'known' entry suppresses exactly its own bucket; 'fixed' entries
    suppress nothing."""
    for k in known:
        if k.get("status") != "known" or k.get("property") != prop:
            continue
        if list(k.get("bucket", [])) == list(bucket):
            return k
    return None


# ---------------------------------------------------------------------------
# report
# ---------------------------------------------------------------------------

class Report:
    def __init__(self, prop, args, rule, level="exploration"):
        self.prop = prop
        self.args = args
        self.rule = rule
        self.level = level
        self.t0 = time.time()
        self.evaluations = 0
        self.nontrivial = set()
        self.samples = []
        self.hist = {}
        self.regions = {}
        self.extra = {}
        self.buckets = {}     # bucket tuple -> {"count", "witness", "detail"}
        self.assumptions = []
        self.exhaustive = None
        self.inconclusive = 0
        self.known = load_known()

    def count(self, table, key, k=1):
        d = getattr(self, table)
        d[key] = d.get(key, 0) + k

    def add_violation(self, bucket, witness, detail, kind="config"):
        b = tuple(bucket)
        e = self.buckets.get(b)
        if e is None:
            e = self.buckets[b] = {"count": 0, "witness": witness, "detail": detail, "kind": kind, "alts": {}}
        e["count"] += 1
        a = e["alts"].get(kind)
        if a is None or _size(witness) < _size(a[0]):      # per kind, keep the structurally smallest witness
            e["alts"][kind] = (witness, detail)
        # primary witness: smallest of the kind seen first ("config" preferred over "sequence"/"history")
        pk = "config" if "config" in e["alts"] else e["kind"]
        e["kind"] = pk
        e["witness"], e["detail"] = e["alts"][pk]

    def sample(self, s, limit=8):
        if len(self.samples) < limit:
            self.samples.append(s)

    def finish(self, shrink_fn=None, replay_payload=None):
        """Shrink + write replays, print lines, write evidence, return exit code.

        shrink_fn(bucket, witness) -> (smaller witness, detail) or None."""
        close_pool_after = True
        # while minimising, a candidate may take at most SHRINK_CASE_S (a slower one counts as 'does not
        # fail' and is skipped), and all minimisation together at most SHRINK_TOTAL_S; both only limit how
        # small the reported witness gets
        old_case_s = os.environ.get("VERIF_CASE_S")
        os.environ["VERIF_CASE_S"] = str(min(SHRINK_CASE_S, int(old_case_s or SHRINK_CASE_S)))
        t_shrink_end = time.time() + SHRINK_TOTAL_S
        nviol = 0
        known_hit = []
        lines = []
        for b in sorted(self.buckets, key=lambda x: json.dumps(x, default=str)):
            e = self.buckets[b]
            k = match_known(self.known, self.prop, b)
            if k is not None:
                known_hit.append({"bucket": list(b), "count": e["count"], "what": k.get("what", "")})
                lines.append("KNOWN-FINDING: property=%s %s (%d cases this run)" % (self.prop, k.get("what", "/".join(map(str, b))), e["count"]))
                continue
            nviol += 1
            w, detail = e["witness"], e["detail"]
            kind = e["kind"]
            if shrink_fn is not None and time.time() >= t_shrink_end:
                detail = detail + " [witness not minimised: minimisation time budget of this run used up]"
            elif shrink_fn is not None:
                try:
                    sh = shrink_fn(b, w)
                    for alt in ("sequence", "cfg-sequence", "item-sequence"):
                        if sh is None and kind == "config" and alt in e["alts"]:
                            # the single config does not reproduce alone: use the ordered sequence that does
                            w, detail = e["alts"][alt]
                            kind = alt
                            sh = shrink_fn(b, w)
                    if sh is not None:
                        w, detail = sh
                        kind = "sequence" if isinstance(w, dict) and "sequence" in w else "cfg-sequence" if isinstance(w, dict) and "cfgs" in w else "item-sequence" if isinstance(w, dict) and "items" in w else (
                            "config" if isinstance(w, dict) and "cls" in w else kind)
                    elif kind not in ("sequence", "cfg-sequence", "item-sequence"):
                        detail = detail + " [witness not minimised: not reproducible in isolation or no shrinker - if the replay passes, the violation depends on what ran before in the same process]"
                except Exception:
                    sys.stderr.write("shrinker failed (witness kept unshrunk):\n" + traceback.format_exc())
            e["kind"] = kind
            path = self._write_replay(b, w, detail, e["kind"])
            print("VIOLATION property=%s replay=%s" % (self.prop, path))
            print("  bucket=%s cases=%d" % ("/".join(map(str, b)), e["count"]))
            if isinstance(w, dict) and "sequence" in w and all(isinstance(c, dict) and "cls" in c for c in w["sequence"]):
                wtxt = "in one process: " + " ; then ".join(C.describe(c) for c in w["sequence"])
            elif isinstance(w, dict) and "cfgs" in w:
                wtxt = "in one process: " + " ; then ".join(C.describe(c) for c in w["cfgs"])
            elif e["kind"] == "config" and isinstance(w, dict) and "cls" in w:
                wtxt = C.describe(w)
            else:
                wtxt = json.dumps(w)[:300]
            print("  witness: %s" % wtxt)
            print("  detail: %s" % detail)
        if old_case_s is None:
            os.environ.pop("VERIF_CASE_S", None)
        else:
            os.environ["VERIF_CASE_S"] = old_case_s
        for ln in lines:
            print(ln)
        if self.inconclusive:
            print("INCONCLUSIVE: %d cases hit the per-case wall-clock guard" % self.inconclusive)
        cov = {
            "evaluations": int(self.evaluations),
            "distinct_nontrivial": len(self.nontrivial),
            "rule": self.rule,
            "samples": self.samples,
            "class_histogram": self.hist,
            "regions": self.regions,
            "known_findings_hit": known_hit,
            "violation_buckets": [{"bucket": list(b), "cases": e["count"]} for b, e in self.buckets.items()],
        }
        if self.exhaustive is not None:
            cov["exhaustive"] = self.exhaustive if isinstance(self.exhaustive, bool) else False
            if not isinstance(self.exhaustive, bool):
                cov["exhaustive_boxes"] = self.exhaustive
        cov.update(self.extra)
        if RETRIED[0]:
            cov["cases_rerun_alone_after_hitting_the_wall_clock_guard"] = RETRIED[0]
        ev = {
            "property_id": self.prop,
            "tier": self.args.tier,
            "seed": int(self.args.seed),
            "level": self.level,
            "coverage": cov,
            "assumptions": self.assumptions,
            "wall_s": round(time.time() - self.t0, 2),
            "violations": nviol,
        }
        if self.args.replay is None:
            # VERIF_EVIDENCE_DIR: used only by the mutation tooling, so that runs against a
            # scratch copy (VERIF_REPO=...) never overwrite the evidence of /repo itself
            evdir = os.environ.get("VERIF_EVIDENCE_DIR") or os.path.join(VERIF, "evidence")
            os.makedirs(evdir, exist_ok=True)
            tmp = os.path.join(evdir, ".%s.json.tmp" % self.prop)
            with open(tmp, "w") as f:
                json.dump(ev, f, indent=1, sort_keys=True, default=str)
                f.write("\n")
            os.replace(tmp, os.path.join(evdir, "%s.json" % self.prop))
        if close_pool_after:
            close_pool()
        print("%s tier=%s seed=%d evaluations=%d distinct_nontrivial=%d violations=%d known=%d wall=%.1fs" % (
            self.prop, self.args.tier, self.args.seed, self.evaluations, len(self.nontrivial), nviol, len(known_hit),
            time.time() - self.t0))
        if nviol:
            return 1
        if self.inconclusive:
            return 2
        return 0

    def _write_replay(self, bucket, witness, detail, kind):
        d = os.path.join(os.environ.get("VERIF_REPLAY_DIR") or os.path.join(VERIF, "replays"), self.prop)
        os.makedirs(d, exist_ok=True)
        name = "_".join(str(x) for x in bucket)
        name = "".join(ch if ch.isalnum() or ch in "-_." else "-" for ch in name)[:120]
        path = os.path.join(d, name + ".json")
        with open(path, "w") as f:
            json.dump({"property": self.prop, "kind": kind, "bucket": list(bucket), "witness": witness,
                       "detail": detail, "seed": self.args.seed, "tier": self.args.tier}, f, indent=1, default=str)
            f.write("\n")
        return os.path.relpath(path, VERIF)


def regress_files(prop):
    """Saved minimal reproductions of earlier findings (regress/<ID>/*.json):
    a seconds-long replay tier executed at the start of every run."""
    d = os.path.join(VERIF, "regress", prop)
    if not os.path.isdir(d):
        return []
    out = []
    for f in sorted(os.listdir(d)):
        if f.endswith(".json"):
            with open(os.path.join(d, f)) as fh:
                out.append(json.load(fh))
    return out


def run_regress(rep, check_witness):
    """check_witness(data) -> [(bucket, witness, detail, kind)]"""
    files = regress_files(rep.prop)
    for data in files:
        rep.evaluations += 1
        for bucket, w, detail, kind in check_witness(data):
            rep.add_violation(bucket, w, detail, kind=kind)
    rep.extra["regress_witnesses_replayed"] = len(files)


def pristine_start(func, payload):
    """Start `func(payload)` (dotted name) in a fresh interpreter; returns a handle."""
    import subprocess
    env = dict(os.environ)
    env["PYTHONPATH"] = VERIF + os.pathsep + env.get("PYTHONPATH", "")
    p = subprocess.Popen([sys.executable, "-m", "vlib.pristine", func], stdin=subprocess.PIPE, stdout=subprocess.PIPE,
                         stderr=subprocess.PIPE, cwd=VERIF, env=env, text=True)
    p.stdin.write(json.dumps(payload))
    p.stdin.close()
    p._verif_call = (func, payload)
    return p


def pristine_wait(p, timeout=3600):
    from .pristine import MARK
    try:
        out = p.stdout.read()
        err = p.stderr.read()
        p.wait(timeout=timeout)
    except Exception as e:
        p.kill()
        harness_error("pristine subprocess failed: %s" % e)
    for line in out.splitlines():
        if line.startswith(MARK):
            res = json.loads(line[len(MARK):])
            if _has_inconclusive(res) and not getattr(p, "_verif_retry", False) and hasattr(p, "_verif_call") and retry_guard():
                RETRIED[0] += 1             # the per-case guard fired: once more, with a long guard
                old = os.environ.get("VERIF_CASE_S")
                os.environ["VERIF_CASE_S"] = str(retry_guard())
                os.environ["VERIF_DEADLINE"] = str(time.time() + retry_guard())
                t0 = time.time()
                try:
                    p2 = pristine_start(*p._verif_call)
                    p2._verif_retry = True
                    return pristine_wait(p2, timeout=timeout)
                finally:
                    os.environ.pop("VERIF_DEADLINE", None)
                    RETRY_SPENT[0] += time.time() - t0
                    if old is None:
                        os.environ.pop("VERIF_CASE_S", None)
                    else:
                        os.environ["VERIF_CASE_S"] = old
            return res
    harness_error("pristine subprocess gave no result (exit %s):\n%s" % (p.returncode, err[-2000:]))


def pristine_call(func, payload):
    return pristine_wait(pristine_start(func, payload))


def _size(w):
    try:
        return len(json.dumps(w, default=str)) + (sum(v for v in w.values() if isinstance(v, int)) if isinstance(w, dict) else 0)
    except Exception:
        return 1 << 30


def load_replay(path):
    if not os.path.isabs(path):
        p2 = os.path.join(VERIF, path)
        if os.path.exists(p2):
            path = p2
    with open(path) as f:
        return json.load(f)

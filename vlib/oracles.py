"""Oracles independent of the code under test (DESIGN 3.3).

Nothing here imports checkpoint_schedules. All arithmetic is exact: costs are
integers in eighths (or Fractions), step counts are ints.

Cost model of a completed stream (DESIGN 2.4):
    cost = uf*forward_steps + ub*n + wd*#(restart checkpoints written to DISK)
           + rd*#(loads from DISK)
"""
import heapq
import sys
from fractions import Fraction
from functools import lru_cache
from math import comb

import contextlib


@contextlib.contextmanager
def deep():
    """Raise the recursion limit only while an ORACLE recursion runs, and restore it: the library
    under test must always run under the interpreter's default limit (a seeded change - and a real
    defect - can hinge on sys.getrecursionlimit())."""
    old = sys.getrecursionlimit()
    sys.setrecursionlimit(max(old, 100000))
    try:
        yield
    finally:
        sys.setrecursionlimit(old)

INF = float("inf")


# ---------------------------------------------------------------------------
# exhaustive optimum: Dijkstra over executor states
# ---------------------------------------------------------------------------

def opt_hier(n, c_ram, c_disk, uf, ub, wd, rd, read_once=False, disk_unbounded=False):
    """True optimum of the hierarchical adjoint problem in stream-cost units.

    State (p, a, R, D): forward state in WORK at step p (-1 = none), adjoint
    position a (steps a..n-1 reversed), bitmasks R/D of restart checkpoints in
    RAM/DISK. Moves = everything an executor of DESIGN 2.2 can be told to do
    with restart checkpoints: advance one step (uf), checkpoint the current
    state to RAM (0) or DISK (wd) if a slot is free, load from RAM (0) or DISK
    (rd; consuming the checkpoint if read_once), drop a checkpoint (0),
    reverse step a-1 when the forward state stands at a-1 (uf + ub)."""
    start = (0, n, 0, 0)
    dist = {start: 0}
    pq = [(0, 0, start)]
    cnt = 0
    while pq:
        d, _, st = heapq.heappop(pq)
        if dist.get(st) != d:
            continue
        p, a, R, D = st
        if a == 0:
            return d
        nxt = []
        if p >= 0:
            if p == a - 1:
                nxt.append(((-1, a - 1, R, D), d + uf + ub))
            else:
                nxt.append(((p + 1, a, R, D), d + uf))
                if not (R >> p) & 1 and bin(R).count("1") < c_ram:
                    nxt.append(((p, a, R | (1 << p), D), d))
                if not (D >> p) & 1 and (disk_unbounded or bin(D).count("1") < c_disk):
                    nxt.append(((p, a, R, D | (1 << p)), d + wd))
        for q in range(a):
            bit = 1 << q
            if R & bit:
                if q != p:
                    nxt.append(((q, a, R, D), d))
                nxt.append(((p, a, R & ~bit, D), d))
            if D & bit:
                if q != p:
                    nxt.append(((q, a, R, D & ~bit) if read_once else (q, a, R, D), d + rd))
                nxt.append(((p, a, R, D & ~bit), d))
        for (p2, a2, R2, D2), nd in nxt:
            mask = (1 << a2) - 1
            R2 &= mask
            D2 &= mask
            if p2 >= a2:
                p2 = -1
            ns = (p2, a2, R2, D2)
            if nd < dist.get(ns, INF):
                dist[ns] = nd
                cnt += 1
                heapq.heappush(pq, (nd, cnt, ns))
    return None


def opt_binomial_search(n, s):
    """Minimal forward steps with s restart checkpoints (one storage level)."""
    return opt_hier(n, s, 0, 1, 0, 0, 0)


def opt_mixed_search(n, s):
    """Minimal forward steps when each of s units holds a restart checkpoint
    or the adjoint dependencies of one step (Dijkstra, cost = forward steps)."""
    start = (0, n, 0, 0)
    dist = {start: 0}
    pq = [(0, start)]
    while pq:
        d, st = heapq.heappop(pq)
        if dist[st] != d:
            continue
        p, a, R, A = st
        if a == 0:
            return d
        used = bin(R).count("1") + bin(A).count("1")
        nxt = []
        if (A >> (a - 1)) & 1:
            nxt.append(((p, a - 1, R, A), d))            # reverse from stored adjoint data
        if p >= 0:
            if p == a - 1:
                nxt.append(((-1, a - 1, R, A), d + 1))    # forward+reverse of the last step
            else:
                nxt.append(((p + 1, a, R, A), d + 1))
                if not (A >> p) & 1 and used < s:
                    nxt.append(((p + 1, a, R, A | (1 << p)), d + 1))   # advance, storing adj data of step p
                if not (R >> p) & 1 and used < s:
                    nxt.append(((p, a, R | (1 << p), A), d))
        for q in range(a):
            bit = 1 << q
            if R & bit:
                if q != p:
                    nxt.append(((q, a, R, A), d))
                nxt.append(((p, a, R & ~bit, A), d))
            if A & bit:
                nxt.append(((p, a, R, A & ~bit), d))
        for (p2, a2, R2, A2), nd in nxt:
            mask = (1 << a2) - 1
            R2 &= mask
            A2 &= mask
            if p2 >= a2:
                p2 = -1
            ns = (p2, a2, R2, A2)
            if nd < dist.get(ns, 1 << 60):
                dist[ns] = nd
                heapq.heappush(pq, (nd, ns))
    return None


# ---------------------------------------------------------------------------
# closed forms
# ---------------------------------------------------------------------------

def gw_extra(n, s):
    """Griewank-Walther: minimal number of EXTRA forward steps for n steps and
    s restart checkpoints: r*n - C(s+r, s+1) with C(s+r-1,s) < n <= C(s+r,s)."""
    if n <= 1:
        return 0
    s = min(s, n - 1)
    if s < 1:
        raise ValueError("no checkpoint for n>1")
    if s == 1:
        return n * (n - 1) // 2          # r = n - 1: same formula, without the linear search for r
    r = 1
    while not (comb(s + r - 1, s) < n <= comb(s + r, s)):
        r += 1
    return r * n - comb(s + r, s + 1)


def gw_repetition(n, s):
    if n <= 1:
        return 0
    s = min(s, n - 1)
    r = 1
    while not (comb(s + r - 1, s) < n <= comb(s + r, s)):
        r += 1
    return r


def gw_total(n, s):
    return n + gw_extra(n, s)


def period_closed_form(cm, uf, wd, rd):
    """Aupy & Herrmann (2017): t = min{t : C(cm+1+t, t) > (wd+rd)/uf}, m = C(cm+t, t)."""
    q = Fraction(wd + rd) / Fraction(uf)
    t = 0
    while comb(cm + 1 + t, t) <= q:
        t += 1
    return comb(cm + t, t)


# ---------------------------------------------------------------------------
# dynamic programs (validated against the searches inside each run)
# ---------------------------------------------------------------------------

def dp_binomial(n, s):
    with deep():
        return _dp_binomial(n, s)


@lru_cache(None)
def _dp_binomial(n, s):
    """Total forward steps, s restart checkpoints, written from the problem
    statement: checkpoint the start (uses one unit), advance j, recurse."""
    if n == 1:
        return 1
    s = min(s, n - 1)
    if s < 1:
        return INF
    if s == 1:
        return n * (n + 1) // 2
    return min(j + _dp_binomial(n - j, s - 1) + _dp_binomial(j, s) for j in range(1, n))


def dp_mixed(n, s):
    with deep():
        return _dp_mixed(n, s)


@lru_cache(None)
def _dp_mixed(n, s):
    """Total forward steps when each unit holds a restart checkpoint or one
    step's adjoint data; no checkpoint held at the start."""
    if n <= 0:
        raise ValueError
    s = min(s, n - 1)
    if n <= s + 1:
        return n            # every step's adjoint data fits: one sweep
    if s < 1:
        return INF
    best = 1 + _dp_mixed(n - 1, s - 1)                      # store adjoint data of step 0
    if s == 1:
        # one unit: restart checkpoint at 0, advance n-1 ... ; last two steps share the unit
        return min(best, n * (n + 1) // 2 - 1)
    for i in range(2, n):
        best = min(best, i + _dp_mixed(i, s) + _dp_mixed(n - i, s - 1))
    return best


def dp_mixed_table(N, S):
    """dp_mixed for all 1<=n<=N, 0<=s<=S as a numpy int table (vectorised over
    the split point; same recurrence as dp_mixed, validated against it and
    against the exhaustive search by the callers)."""
    import numpy as np
    BIG = 1 << 60
    M = np.full((N + 1, S + 1), BIG, dtype=np.int64)
    for n in range(1, N + 1):
        for s in range(0, S + 1):
            if n <= min(s, n - 1) + 1:
                M[n, s] = n
    for s in range(1, S + 1):
        for n in range(s + 2, N + 1):
            best = 1 + M[n - 1, s - 1]
            if s == 1:
                best = min(best, n * (n + 1) // 2 - 1)
            else:
                i = np.arange(2, n)
                best = min(best, int((i + M[2:n, s] + M[n - 2:0:-1, s - 1]).min()))
            M[n, s] = best
    return M


class HierDP:
    """H-Revolve ("state stored / not yet stored at level k") and Disk-Revolve
    recurrences in stream-cost units, exact ints."""

    def __init__(self, c0, c1, uf, ub, wd, rd):
        self.c0, self.c1, self.uf, self.ub, self.wd, self.rd = c0, c1, uf, ub, wd, rd
        self.B0 = lru_cache(None)(self._B0)
        self.B1 = lru_cache(None)(self._B1)
        self.A1 = lru_cache(None)(self._A1)
        self.D = lru_cache(None)(self._D)

    # level 0 (RAM): state at the start already stored in one of m slots
    def _B0(self, L, m):
        uf, ub = self.uf, self.ub
        if L == 1:
            return uf + ub
        if m < 1:
            return INF
        best = L * (L + 1) // 2 * uf + L * ub
        if m >= 2:
            for j in range(1, L):
                best = min(best, j * uf + self.A0(L - j, m - 1) + self.B0(j, m))
        return best

    def A0(self, L, m):            # state not yet stored; storing to RAM is free
        if L == 1:
            return self.uf + self.ub
        return self.B0(L, m) if m >= 1 else INF

    def _B1(self, L, m):           # state stored on DISK, m disk slots (incl. this one)
        if L == 1:
            return self.uf + self.ub
        best = self.A0(L, self.c0)
        for j in range(1, L):
            best = min(best, j * self.uf + self.A1(L - j, m - 1) + self.rd + self.B1(j, m))
        return best

    def _A1(self, L, m):
        if L == 1:
            return self.uf + self.ub
        if m == 0:
            return self.A0(L, self.c0)
        return min(self.A0(L, self.c0), self.wd + self.B1(L, m))

    def hopt(self, n):
        with deep():
            return self.A1(n, self.c1)

    def ropt(self, n):
        with deep():
            return self.A0(n, self.c0)

    def _D(self, L):               # Disk-Revolve: unbounded disk, each disk checkpoint read once
        best = self.A0(L, self.c0)
        for j in range(1, L):
            best = min(best, self.wd + j * self.uf + self.D(L - j) + self.rd + self.A0(j, self.c0))
        return best

    def dopt(self, n):
        with deep():
            return self.D(n)


def stream_cost(c8, n, fsteps, dwrites, dreads):
    """Stream cost in eighths from measured counts."""
    uf, ub, wd, rd = c8
    return uf * fsteps + ub * n + wd * dwrites + rd * dreads

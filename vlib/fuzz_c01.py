"""Secondary engine (DESIGN 7): coverage-guided fuzzing of the stream monitor
with atheris/libFuzzer. Bytes are decoded by FuzzedDataProvider into a valid
config (construction, no rejection); the semantic oracle (reference executor,
predicates of C01 C02 C03 C12) sits inside the target. Violations do not abort
the campaign: they are appended to <out>/violations.jsonl and the search goes
on (libFuzzer would otherwise stop at the first one); <out>/stats.json is
rewritten periodically because atexit handlers do not run under libFuzzer.

usage: python -m vlib.fuzz_c01 <outdir> [libFuzzer flags...]   e.g. -runs=20000 -seed=1
"""
import json
import os
import sys

outdir = sys.argv[1]
argv = [sys.argv[0]] + sys.argv[2:]
os.makedirs(outdir, exist_ok=True)

import atheris  # noqa: E402

with atheris.instrument_imports(include=["checkpoint_schedules"]):
    from vlib import lib  # noqa: E402,F401
from vlib import configs as C  # noqa: E402
from vlib import monitor  # noqa: E402

PROPS = ("C01", "C02", "C03", "C12")
stats = {"executions": 0, "by_class": {}, "violations": 0, "distinct": 0}
seen = set()
CLASSES = ["Multistage", "Mixed", "TwoLevel", "Revolve", "DiskRevolve", "PeriodicDiskRevolve", "HRevolve", "SingleDisk", "SingleMemory"]


STYLES = [None, None, None, "kw", "kwr", "pkr", "dflt", "ci", "npf"]
DRIVERS = [None, None, None, "iter", "loops", "blind", "np"]


def decode(data):
    """Base config, then (from the trailing bytes; absent bytes decode to 'none') how the constructor
    call is written, how the stream is driven and how late an online schedule is finalised."""
    f = atheris.FuzzedDataProvider(data)
    cfg = decode_base(f)
    st = STYLES[f.ConsumeIntInRange(0, len(STYLES) - 1)]
    if st and (st not in ("ci", "npf") or "c8" in cfg) and cfg["cls"] != "SingleMemory":
        cfg["style"] = st
    dr = DRIVERS[f.ConsumeIntInRange(0, len(DRIVERS) - 1)]
    if dr == "iter":
        cfg["iter"] = True
    elif dr == "loops":
        cfg["iter"] = "loops"
    elif dr == "blind":
        cfg["blind"] = True
    elif dr == "np" and "style" not in cfg:
        cfg["np"] = True
    if cfg["cls"] in C.ONLINE:
        late = f.ConsumeIntInRange(0, 3)
        if late:
            cfg["late"] = late
    return cfg


def decode_base(f):
    cls = CLASSES[f.ConsumeIntInRange(0, len(CLASSES) - 1)]
    n = f.ConsumeIntInRange(1, 48)
    if cls == "Multistage":
        ram = f.ConsumeIntInRange(0, 6)
        disk = f.ConsumeIntInRange(0, 6)
        if n > 1 and ram + disk == 0:
            disk = 1
        return {"cls": cls, "n": n, "ram": ram, "disk": disk, "traj": ["maximum", "revolve"][f.ConsumeIntInRange(0, 1)], "passes": 1}
    if cls == "Mixed":
        return {"cls": cls, "n": n, "s": f.ConsumeIntInRange(min(1, n - 1), 8), "storage": ["RAM", "DISK"][f.ConsumeIntInRange(0, 1)], "passes": 1}
    if cls == "TwoLevel":
        return {"cls": cls, "period": f.ConsumeIntInRange(1, 12), "b": f.ConsumeIntInRange(0, 5), "storage": ["RAM", "DISK"][f.ConsumeIntInRange(0, 1)],
                "traj": ["maximum", "revolve"][f.ConsumeIntInRange(0, 1)], "n": n, "passes": f.ConsumeIntInRange(1, 3)}
    if cls == "SingleDisk":
        mv = f.ConsumeBool()
        return {"cls": cls, "move": mv, "n": n, "passes": 1 if mv else f.ConsumeIntInRange(1, 3)}
    if cls == "SingleMemory":
        return {"cls": cls, "n": n, "passes": f.ConsumeIntInRange(1, 3)}
    c8 = [f.ConsumeIntInRange(1, 64), f.ConsumeIntInRange(1, 64), f.ConsumeIntInRange(0, 160), f.ConsumeIntInRange(0, 160)]
    cfg = {"cls": cls, "n": n, "s": f.ConsumeIntInRange(1, 5), "c8": c8, "passes": 1}
    if cls == "HRevolve":
        cfg["d"] = f.ConsumeIntInRange(0, 5)
    return C.tame_period(cfg)


def flush():
    with open(os.path.join(outdir, "stats.json.tmp"), "w") as fh:
        json.dump(stats, fh)
    os.replace(os.path.join(outdir, "stats.json.tmp"), os.path.join(outdir, "stats.json"))


def one(data):
    cfg = decode(data)
    r = monitor.execute(cfg)
    stats["executions"] += 1
    stats["by_class"][cfg["cls"]] = stats["by_class"].get(cfg["cls"], 0) + 1
    k = C.key(cfg)
    if k not in seen:
        seen.add(k)
        stats["distinct"] = len(seen)
    bad = [v for v in r.get("viol", []) if v[0] in PROPS]
    if bad:
        stats["violations"] += 1
        with open(os.path.join(outdir, "violations.jsonl"), "a") as fh:
            fh.write(json.dumps({"cfg": cfg, "viol": bad[:6]}) + "\n")
    if stats["executions"] % 250 == 0:
        flush()


atheris.Setup(argv, one)
flush()
atheris.Fuzz()

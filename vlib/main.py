"""Entry point: python -m vlib.main <ID> [--tier quick|thorough] [--replay FILE]"""
import sys
import traceback


def main(argv):
    import faulthandler
    import signal
    faulthandler.register(signal.SIGUSR1, all_threads=True)   # kill -USR1 <pid> dumps all stacks (debugging aid)
    from . import runner as R
    args = R.parse(argv)
    prop = args.prop.upper()
    args.prop = prop
    try:
        from .props import registry
        mod = registry.get(prop)
        if mod is None:
            R.harness_error("no check registered for %s" % prop)
        return mod(prop, args)
    except SystemExit:
        raise
    except Exception:
        R.close_pool()
        R.harness_error("unexpected harness exception:\n" + traceback.format_exc())


if __name__ == "__main__":
    sys.exit(main(sys.argv[1:]))

"""Verification harness package. Importing it puts the library under test
($VERIF_REPO, default /repo) FIRST on sys.path, so that every later
`import checkpoint_schedules...` - wherever it is written - resolves to the
working tree being checked and never to an installed copy."""
import os
import sys

_REPO = os.path.realpath(os.environ.get("VERIF_REPO", "/repo"))
if not sys.path or sys.path[0] != _REPO:
    sys.path.insert(0, _REPO)
sys.dont_write_bytecode = True

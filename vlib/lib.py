"""Import of the library under test + quiet wrappers + action normalisation.

The library is always imported from $VERIF_REPO (default /repo) placed FIRST on
sys.path, so a check sees the current working tree (or a scratch copy used for
mutation runs), never an installed copy.
"""
import contextlib
import io
import numbers
import os
import sys
import warnings

REPO = os.path.realpath(os.environ.get("VERIF_REPO", "/repo"))
if REPO not in sys.path[:1]:
    sys.path.insert(0, REPO)
sys.dont_write_bytecode = True

_buf = io.StringIO()
with contextlib.redirect_stdout(_buf), warnings.catch_warnings():
    warnings.simplefilter("ignore")
    import checkpoint_schedules as cs                      # noqa: E402
    import checkpoint_schedules.schedule as cs_schedule    # noqa: E402
    import checkpoint_schedules.mixed as cs_mixed          # noqa: E402
    import checkpoint_schedules.multistage as cs_multistage  # noqa: E402
    import checkpoint_schedules.hrevolve as cs_hrevolve    # noqa: E402

if not os.path.realpath(cs.__file__).startswith(REPO + os.sep):
    # an exception (not sys.exit): inside a pool worker it travels back to the parent as a
    # harness error instead of silently killing the worker
    raise ImportError("HARNESS-ERROR: checkpoint_schedules imported from %s, expected under %s" % (cs.__file__, REPO))

ST = cs_schedule.StorageType
Forward, Reverse, Copy, Move = (cs_schedule.Forward, cs_schedule.Reverse,
                                cs_schedule.Copy, cs_schedule.Move)
EndForward, EndReverse = cs_schedule.EndForward, cs_schedule.EndReverse

KIND = {Forward: "F", Reverse: "R", Copy: "C", Move: "M", EndForward: "EF",
        EndReverse: "ER"}


class LibError(Exception):
    """An exception raised by the library inside a wrapped call."""

    def __init__(self, where, exc):
        super().__init__("%s: %s: %s" % (where, type(exc).__name__, exc))
        self.where = where
        self.exc = exc
        self.exc_type = type(exc).__name__


def quiet(fn, *args, **kwargs):
    """Call into the library with stdout captured and warnings silenced."""
    buf = io.StringIO()
    with contextlib.redirect_stdout(buf), warnings.catch_warnings():
        warnings.simplefilter("ignore")
        return fn(*args, **kwargs)


def _is_int(x):
    return isinstance(x, numbers.Integral) and not isinstance(x, bool)


def stname(x):
    return x.name if isinstance(x, ST) else "?%r" % (x,)


def norm(a):
    """Normalise a library action to a plain tuple. Never uses library ==.

    Raises ValueError if the object cannot be normalised at all.
    """
    k = KIND.get(type(a))
    if k is None:
        # subclasses are tolerated, anything else is not an action
        for t, kk in KIND.items():
            if isinstance(a, t):
                k = kk
                break
        else:
            raise ValueError("not an action: %r" % (a,))
    args = a.args
    try:
        if k == "F":
            return ("F", int(args[0]), int(args[1]), bool(args[2]),
                    bool(args[3]), stname(args[4]))
        if k == "R":
            return ("R", int(args[0]), int(args[1]), bool(args[2]))
        if k in ("C", "M"):
            return (k, int(args[0]), stname(args[1]), stname(args[2]))
        return (k,)
    except Exception as e:  # malformed field
        raise ValueError("malformed action %s%r: %s" % (k, args, e))


def fmt(t):
    """Human readable form of a normalised action."""
    k = t[0]
    big = sys.maxsize // 2
    def i(v):
        return ("%d+maxsize" % (v - sys.maxsize)) if v >= big else str(v)
    if k == "F":
        return "Forward(%s,%s,%s,%s,%s)" % (i(t[1]), i(t[2]), "T" if t[3] else "F", "T" if t[4] else "F", t[5])
    if k == "R":
        return "Reverse(%d,%d,%s)" % (t[1], t[2], "T" if t[3] else "F")
    if k == "C":
        return "Copy(%d,%s,%s)" % t[1:]
    if k == "M":
        return "Move(%d,%s,%s)" % t[1:]
    return {"EF": "EndForward()", "ER": "EndReverse()"}[k]


def wellformed(a):
    """C18 field predicates on a raw emitted action; returns list of problems."""
    import numpy as np
    probs = []
    boolt = (bool, np.bool_)
    if isinstance(a, Forward):
        if len(a.args) != 5:
            return ["Forward has %d args" % len(a.args)]
        n0, n1, wi, wa, st = a.args
        if not (_is_int(n0) and _is_int(n1)):
            probs.append("Forward n0/n1 not integral: %r %r" % (n0, n1))
        elif not (0 <= n0 < n1):
            probs.append("Forward requires 0 <= n0 < n1, got %r %r" % (n0, n1))
        if not (isinstance(wi, boolt) and isinstance(wa, boolt)):
            probs.append("Forward flags not bool: %r %r" % (wi, wa))
        if not isinstance(st, ST):
            probs.append("Forward storage not a StorageType: %r" % (st,))
        else:
            if st in (ST.RAM, ST.DISK) and not (wi or wa):
                probs.append("Forward names %s but writes nothing" % st.name)
            if st is ST.NONE and (wi or wa):
                probs.append("Forward writes to NONE")
    elif isinstance(a, Reverse):
        if len(a.args) != 3:
            return ["Reverse has %d args" % len(a.args)]
        n1, n0, cl = a.args
        if not (_is_int(n0) and _is_int(n1)):
            probs.append("Reverse n1/n0 not integral: %r %r" % (n1, n0))
        elif not (n1 > n0 >= 0):
            probs.append("Reverse requires n1 > n0 >= 0, got %r %r" % (n1, n0))
        if not isinstance(cl, boolt):
            probs.append("Reverse flag not bool: %r" % (cl,))
    elif isinstance(a, (Copy, Move)):
        if len(a.args) != 3:
            return ["%s has %d args" % (type(a).__name__, len(a.args))]
        n, src, dst = a.args
        if not _is_int(n) or n < 0:
            probs.append("%s step not a non-negative integer: %r" % (type(a).__name__, n))
        if src not in (ST.RAM, ST.DISK):
            probs.append("%s source is not RAM/DISK: %r" % (type(a).__name__, src))
        if not isinstance(dst, ST):
            probs.append("%s destination not a StorageType: %r" % (type(a).__name__, dst))
    elif isinstance(a, (EndForward, EndReverse)):
        if len(a.args) != 0:
            probs.append("%s has args" % type(a).__name__)
    else:
        probs.append("not a checkpoint action: %r" % (a,))
    return probs

#!/venv/bin/python
"""Regenerate the seeded-change table of DESIGN.md section 8 (between the SENS markers)."""
import json, os, re
V = os.path.dirname(os.path.dirname(os.path.abspath(__file__)))
rows = []
for name in sorted(os.listdir(os.path.join(V, "seeded"))):
    d = os.path.join(V, "seeded", name)
    if not os.path.exists(os.path.join(d, "result.json")):
        continue
    m = json.load(open(os.path.join(d, "meta.json")))
    r = json.load(open(os.path.join(d, "result.json")))
    tgt = m.get("property")
    ck = r.get("checks", {})
    caught = sorted(c for c in ck if ck[c]["exit"] == 1)
    det = ""
    if tgt in ck and ck[tgt]["exit"] == 1:
        w = [l for l in ck[tgt]["report"] if "witness:" in l]
        det = (w[0].split("witness:", 1)[1].strip()[:90] if w else "")
        det += " (%ss)" % ck[tgt]["seconds"]
    needs = re.sub(r"\s+", " ", m.get("needs", ""))[:230]
    summ = re.sub(r"\s+", " ", m.get("summary", ""))[:200]
    note = m.get("note", "")
    rows.append("| `%s` | %s | %s | %s | %s | %s |" % (name, tgt, summ.replace("|", "/"), needs.replace("|", "/"),
                                                     ", ".join(caught) or "**none**", (det.replace("|", "/") + (" — " + note if note else ""))))
tab = "| seeded change | target | what was changed | needs, to manifest | quick checks that raise VIOLATION | target check's shrunk witness (time) |\n|---|---|---|---|---|---|\n" + "\n".join(rows)
p = os.path.join(V, "DESIGN.md")
s = open(p).read()
a, b = "<!-- SENS:BEGIN -->", "<!-- SENS:END -->"
if a in s:
    s = s[:s.index(a) + len(a)] + "\n" + tab + "\n" + s[s.index(b):]
    open(p, "w").write(s)
print(tab[:600])
print(len(rows), "rows")

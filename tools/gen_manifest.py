#!/opt/veriftools/pyvenv/bin/python
"""Regenerate MANIFEST.json from the table below (keeps it schema-valid)."""
import json, os, sys
HERE = os.path.dirname(os.path.dirname(os.path.abspath(__file__)))
sys.path.insert(0, HERE)
from tools.manifest_table import CHECKS, NOT_APPLICABLE, HOOKS, NOTES, ENGINES

checks = []
for pid, d in CHECKS.items():
    checks.append({
        "property_id": pid,
        "quick_cmd": "./check %s --tier quick" % pid,
        "thorough_cmd": "./check %s --tier thorough" % pid,
        "evidence_file": "evidence/%s.json" % pid,
        "replay_cmd_template": "./check %s --replay {path}" % pid,
        "engine": d.get("engine", "hypothesis+exhaustive-box"),
        "level_claimed": {"category": "exploration", "text": d["text"], "design_ref": d["design_ref"]},
        "level_note": d["note"],
        "technique": d["technique"],
    })
m = {"version": 1, "setup_cmd": "./setup.sh", "hooks": HOOKS, "engines": ENGINES, "checks": checks,
     "notes": NOTES, "not_applicable": NOT_APPLICABLE}
with open(os.path.join(HERE, "MANIFEST.json"), "w") as f:
    json.dump(m, f, indent=1)
    f.write("\n")
import jsonschema
jsonschema.validate(m, json.load(open("/root/.vp/MANIFEST.schema.json")))
props = [json.loads(l)["id"] for l in open(os.path.join(HERE, "properties.jsonl"))]
claimed = set(CHECKS); na = {x["property_id"] for x in NOT_APPLICABLE}
missing = [p for p in props if p not in claimed and p not in na]
print("manifest ok: %d checks, %d not_applicable, unaccounted: %s" % (len(checks), len(na), missing))

"""Source of truth for MANIFEST.json (run tools/gen_manifest.py after editing)."""

STREAM_NOTE = ("Trusted base: the reference executor in vlib/monitor.py (semantics of the maintainers' own "
               "tests/test_validity.py executor, extended to all passes/storages and online finalisation), "
               "the per-class table of permitted adjoint passes read from the docstrings, and Hypothesis "
               "as the source of randomness. Exploration, not proof: n<=10 (quick) / n<=24 (thorough) "
               "exhaustively, sampled to n=160 / 400.")
STREAM_TECH = "property-based testing: exhaustive small boxes + Hypothesis-generated configs executed by a reference executor (validity-predicate oracle), collect-then-shrink"

CHECKS = {
    "C01": dict(design_ref="DESIGN.md section 4 C01, 2.2", technique=STREAM_TECH, note=STREAM_NOTE,
                text="Every stream of every class variant (all permitted passes, every finalisation point of online schedules) is carried out literally by a reference executor; each Forward/Copy/Move/Reverse precondition of the statement is a predicate. Exhaustive for n<=10/24, generated to n=160/400."),
    "C02": dict(design_ref="DESIGN.md section 4 C02", technique=STREAM_TECH + "; phase automaton over the normalised stream", note=STREAM_NOTE,
                text="Phase automaton independent of the storage model: forward sweep contiguous 0..n once, one EndForward, Reverse intervals tile n..0 per pass, EndReverse exactly at r==n, StopIteration (x3) after the last permitted pass, action-count cap for non-termination."),
    "C03": dict(design_ref="DESIGN.md section 4 C03", technique=STREAM_TECH + "; occupancy invariant after every action", note=STREAM_NOTE,
                text="After every action the executor's RAM/DISK occupancy is compared with the per-class budget of the statement; every checkpoint write is checked for kind purity. Generator biased to tight budgets."),
    "C04": dict(design_ref="DESIGN.md section 4 C04", technique=STREAM_TECH + "; storage snapshot comparison at EndForward/EndReverse", note=STREAM_NOTE,
                text="Executor storage must be empty at the EndReverse of single-pass schedules and equal to the EndForward snapshot at every EndReverse of multi-pass schedules (passes 1..3)."),
    "C08": dict(design_ref="DESIGN.md section 4 C08", technique=STREAM_TECH + "; observers compared with executor state after every next()", note=STREAM_NOTE,
                text="schedule.n / r / max_n are read after every action and compared with the executor's forward position, reversed-step counter and the true step count, including the reset rule at EndReverse."),
    "C11": dict(design_ref="DESIGN.md section 4 C11", technique=STREAM_TECH + "; uses_storage_type queried before/during/after iteration for all four members", note=STREAM_NOTE,
                text="uses_storage_type is queried for all four StorageType members before the first next(), every 7th action and at the end; it must never raise and must be true for RAM/DISK whenever the stream so far touches that storage."),
    "C12": dict(design_ref="DESIGN.md section 4 C12", technique=STREAM_TECH + "; working-storage invariants in the executor", note=STREAM_NOTE,
                text="Executor predicates on working storage: at most one step of adjoint data (SingleMemory exempt), loads only into empty WORK, adjoint data written to WORK only for the step just before the adjoint position, no Forward beyond the adjoint position after finalisation."),
}

PENDING = ["C05", "C06", "C07", "C09", "C10", "C13", "C14", "C15", "C16", "C17", "C18", "C19"]
NOT_APPLICABLE = [{"property_id": p, "reason": "check designed (DESIGN.md section 4) but not yet built in this commit; property-based testing applies"} for p in PENDING if p not in CHECKS]

HOOKS = {
    "guard": "CHECKPOINT_SCHEDULES_VERIF",
    "enable": "no source hooks are needed: every property is observable through the public iteration protocol; checks import the working tree from $VERIF_REPO (default /repo) first on sys.path",
    "baseline_off_cmd": "cd /repo && /venv/bin/python -m pytest -ra -q -p no:cacheprovider --timeout=900 -n 16 tests",
    "source_commits": [],
    "add_only": True,
}

ENGINES = [
    {"name": "hypothesis+exhaustive-box", "path": "vlib/", "serves_properties": sorted(CHECKS),
     "kind_free_text": "Hypothesis 6.168 strategies (seeded by VERIF_SEED) + itertools exhaustive boxes, executed on a 16-process pool; reference executor / independent oracles; deterministic coordinate-descent shrinker"},
]

NOTES = ("Single entry point ./check <ID> [--tier quick|thorough] [--replay FILE]; exit 0 held, exit 1 + VIOLATION line, "
         "exit 2 harness error/inconclusive. Library imported from $VERIF_REPO (default /repo). See DESIGN.md.")

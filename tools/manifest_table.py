"""Source of truth for MANIFEST.json (run tools/gen_manifest.py after editing)."""

STREAM_NOTE = ("Trusted base: the reference executor in vlib/monitor.py (semantics of the maintainers' own "
               "tests/test_validity.py executor, extended to all passes/storages and online finalisation), "
               "the per-class table of permitted adjoint passes read from the docstrings, and Hypothesis "
               "as the source of randomness. Exploration, not proof: n<=10 (quick) / n<=24 (thorough) "
               "exhaustively, sampled to n=160 / 400.")
STREAM_TECH = "property-based testing: exhaustive small boxes + Hypothesis-generated configs + cold large-n probes + late-finalisation histories + deep-repetition probes + ordered sibling sequences in pristine processes + driver styles (next, iter, one for-loop per phase) and constructor call styles (keyword, defaults omitted, int / numpy.float64 costs), executed by a reference executor (validity-predicate oracle), collect-then-shrink"

CHECKS = {
    "C01": dict(design_ref="DESIGN.md section 4 C01, 2.2", technique=STREAM_TECH, note=STREAM_NOTE,
                text="Every stream of every class variant (all permitted passes, every finalisation point of online schedules) is carried out literally by a reference executor; each Forward/Copy/Move/Reverse precondition of the statement is a predicate. Exhaustive for n<=10/24, generated to n=160/400."),
    "C02": dict(design_ref="DESIGN.md section 4 C02", technique=STREAM_TECH + "; phase automaton over the normalised stream", note=STREAM_NOTE,
                text="Phase automaton independent of the storage model: forward sweep contiguous 0..n once, one EndForward, Reverse intervals tile n..0 per pass, EndReverse exactly at r==n, StopIteration (x3) after the last permitted pass, action-count cap for non-termination."),
    "C03": dict(design_ref="DESIGN.md section 4 C03", technique=STREAM_TECH + "; occupancy invariant after every action", note=STREAM_NOTE,
                text="After every action the executor's RAM/DISK occupancy is compared with the per-class budget of the statement; every checkpoint write is checked for kind purity. Generator biased to tight budgets."),
    "C04": dict(design_ref="DESIGN.md section 4 C04", technique=STREAM_TECH + "; storage snapshot comparison at EndForward/EndReverse", note=STREAM_NOTE,
                text="Executor storage must be empty at the EndReverse of single-pass schedules and equal to the EndForward snapshot at every EndReverse of multi-pass schedules (passes 1..3)."),
    "C08": dict(design_ref="DESIGN.md section 4 C08", technique=STREAM_TECH + "; observers compared with executor state after every next()", note=STREAM_NOTE,
                text="schedule.n / r / max_n are read after every action and compared with the executor's forward position, reversed-step counter and the true step count, including the reset rule at EndReverse."),
    "C11": dict(design_ref="DESIGN.md section 4 C11", technique=STREAM_TECH + "; uses_storage_type queried before/during/after iteration for all four members", note=STREAM_NOTE,
                text="uses_storage_type is queried for all four StorageType members before the first next(), every 7th action and at the end; it must never raise and must be true for RAM/DISK whenever the stream so far touches that storage."),
    "C12": dict(design_ref="DESIGN.md section 4 C12", technique=STREAM_TECH + "; working-storage invariants in the executor", note=STREAM_NOTE,
                text="Executor predicates on working storage: at most one step of adjoint data (SingleMemory exempt), loads only into empty WORK, adjoint data written to WORK only for the step just before the adjoint position, no Forward beyond the adjoint position after finalisation."),
}


ORACLE_NOTE = ("Trusted base: the independent oracles in vlib/oracles.py (exhaustive Dijkstra over executor states, DP recurrences, closed forms), "
               "cross-validated against each other inside every run (disagreement = exit 2, never a VIOLATION); the reference executor for measuring streams; "
               "exact integer arithmetic on dyadic costs. The true optimum over ALL schedules is established only on the small exhaustive range; beyond it the "
               "oracle is a DP/closed form validated on that range.")

CHECKS.update({
    "C05": dict(design_ref="DESIGN.md section 4 C05, 3.3", note=ORACLE_NOTE,
                technique="property-based testing against a reference model: exhaustive optimal search (Dijkstra) + independent DP + Griewank-Walther closed form; exhaustive box + dense (n,s) grid + step-size scan (local optimality of n_advance for n<=1600/6000, candidates confirmed by streams) + boundary probe sequence + Hypothesis configs",
                text="Forward-step totals of Multistage (every RAM/DISK split, both trajectories), Revolve (random costs) and optimal_steps_binomial are compared with the true optimum (exhaustive search over all executable schedules for n<=8/11) and with DP/closed form to n=64/400."),
    "C06": dict(design_ref="DESIGN.md section 4 C06, 3.3", note=ORACLE_NOTE,
                technique="property-based testing against a reference model: exhaustive optimal search over mixed schedules + independent DP; dense (n,s) grid to n=64/150, planner scan to n=220/420 (candidates confirmed by streams), boundary probe sequence in a pristine interpreter and cold many-units probes (336..450 units, each alone in a fresh interpreter); metamorphic RAM vs DISK relation",
                text="Mixed forward-step totals compared with the optimum over all schedules whose units hold a restart checkpoint or one step's adjoint data (search n<=8/11, DP to 64/300); RAM and DISK streams must be equal up to the label; helper optimal_steps_mixed must agree."),
    "C07": dict(design_ref="DESIGN.md section 4 C07, 3.3", note=ORACLE_NOTE,
                technique="property-based testing: differential against exhaustive hierarchical search and independent H-Revolve/Disk-Revolve DPs, plus the metamorphic cost relations of the statement; asymmetric dyadic cost vectors by construction, plus one-decimal and 2**(+-40)-rescaled cost units; dense DP grids and cost-table scan (candidates confirmed by streams); the same cost vectors passed as Python ints next to floats, as numpy.float64, by keyword and with defaults omitted",
                text="Stream cost (uf, ub, wd, rd weighted counts) of HRevolve / Revolve / DiskRevolve equals the optimum from exhaustive search (n<=7/9) and DP (n to 64/300) for asymmetric cost vectors; monotonicity in disk units, DiskRevolve<=Revolve, Periodic>=DiskRevolve checked on every group."),
    "C09": dict(design_ref="DESIGN.md section 4 C09", technique=STREAM_TECH + "; flag model from the documented per-class pass table; pass k compared tuple-for-tuple with pass 1 and re-executed", note=STREAM_NOTE,
                text="is_running / is_exhausted read before the first next() and after every action, streams driven 3 next() calls past their end, multi-pass classes run for 1..3 passes with each repeat compared with pass 1 and executed by the reference executor."),
    "C13": dict(design_ref="DESIGN.md section 4 C13", note=ORACLE_NOTE,
                technique="property-based testing: exact expected forward sweep + per-(pass, block) comparison with the Griewank-Walther closed form (validated by exhaustive search in-run); periods to 64, exhaustive full+partial-block box; ladder of long blocks (72..330/700 steps) and a step-size scan (local optimality of n_advance for block lengths to 400/1200) used as a generator of TwoLevel cases",
                text="Forward sweep must equal the periodic DISK-checkpoint sequence exactly; every period block of every pass must be recomputed with exactly the binomial optimum for binomial_snapshots+1 units; extra checkpoints only in the binomial storage. period<=6/8 exhaustive, to 16 generated."),
    "C14": dict(design_ref="DESIGN.md section 4 C14", note=STREAM_NOTE,
                technique="property-based testing: metamorphic relation across all RAM/DISK splits of one (n, trajectory, s) group + harness-side stack tracking and tie-independent traffic optimum",
                text="All splits of s produce shape-identical streams; each stack position keeps one label; RAM-labelled positions <= declared; DISK accesses equal total minus the k largest per-position access counts. Exhaustive n<=18/26, groups to n=120/400."),
    "C16": dict(design_ref="DESIGN.md section 4 C16", note="numba cannot be installed offline: the tabulated planner is run by CPython+NumPy with the unmodified source (module attribute mixed.numba forced to a sentinel); the compiled artefact itself is not exercised.",
                technique="property-based testing: differential between the tabulated and the memoised planner (every table entry of the square table N=100/200 and of the tall-narrow table n<=320/640, s<=40/64, exhaustive) and between the streams produced on both code paths, incl. cold many-units schedules (336/450 units) alone in a fresh interpreter, and ordered histories of schedules on both paths in one pristine process (descending / ascending / zig-zag sizes, drawn permutations)",
                text="Every entry (kind, length, cost) of mixed_steps_tabulation(N, N-1) for N=60/160 equals mixed_step_memoization; Mixed streams with the tabulated path forced equal the default streams by value and are executable."),
    "C17": dict(design_ref="DESIGN.md section 4 C17", note="Documented domain computed by the harness from the constructors/docstrings (DESIGN 2.1); negative unit counts and non-positive costs are outside the statement and never generated.",
                technique="property-based testing: exhaustive box over valid AND invalid constructor tuples with a domain-membership oracle; generated valid tuples to n=160/400; cold (pristine-process) large-n probes to n=1000/2000; ordered histories of valid constructions in one pristine process (max_n swept up / down / shuffled, rotations through the Revolve family)",
                text="Valid tuples must construct and yield a complete stream (C02 completeness); invalid ones must raise at construction or at the first next(), never after an action. max_n in -1..8/16, all unit counts, all four storages, period -1..4."),
    "C18": dict(design_ref="DESIGN.md section 4 C18", note="Expected equality is computed from raw .args tuples and type identity; comparison with non-action objects is outside the statement.",
                technique="property-based testing: field predicates on every emitted action + Hypothesis-generated actions and biased action pairs (==/!= truth table, repr round-trip, len/iter/in vs range); late-finalisation histories of the online classes (up to 19 further Forwards); step indices far from the small range (multiples of sys.maxsize, neighbours of powers of two and ten, integers whose decimal text contains that of sys.maxsize)",
                text="Emitted actions of a stream sweep (incl. numpy-integer actions of the tabulated Mixed planner) are checked for the field predicates and value semantics; generated pairs check == / != never raise and equal type+args identity, repr round-trips, len/iteration/membership enumerate the covered steps."),
    "C19": dict(design_ref="DESIGN.md section 4 C19", note=ORACLE_NOTE,
                technique="property-based testing: closed-form period oracle in exact rationals, same m required for 6-14 values of n per cost vector; per-segment Revolve optimum via Griewank-Walther; integer-ratio staircase, extreme cost ratios (2^30:1) and rescaled units (x2^+-40)",
                text="For each (RAM units, costs) group the closed-form period m is computed exactly and every stream of the group must write DISK checkpoints exactly at 0, m, 2m, ... in the forward sweep, never later, read each once, and reverse every segment with the memory-only optimum."),
})

CHECKS.update({
    "C10": dict(design_ref="DESIGN.md section 4 C10, 3.4", engine="hypothesis-stateful",
                note="Trusted base: the 60-line reference model in vlib/props/c10.py (told / max_n / forward position), Hypothesis rule-based state machine generation and shrinking. Histories bounded by stateful_step_count (40/80).",
                technique="model-based stateful testing: Hypothesis RuleBasedStateMachine over next()/finalize(k)/observer histories against a reference model, plus a twin object that receives only the accepted calls (differential)",
                text="Call histories of next(), finalize(k) (k from -1,0,1,told-1,told,told+1,max_n,random) and observer reads on one object of any class: outcome (success/ValueError/RuntimeError), post-state and 'next action is EndForward' per the reference model; rejected calls must leave observers and the subsequent stream (vs. twin) unchanged."),
    "C15": dict(design_ref="DESIGN.md section 4 C15, 3.4", engine="hypothesis-stateful",
                note="Trusted base: vlib/golden.py (fresh interpreter, forked pristine child per config) as the oracle; every history itself runs in a child forked from a pristine worker. Bounded histories (40/80 rules, <=6 live objects).",
                technique="model-based stateful testing: Hypothesis RuleBasedStateMachine interleaving up to 6 live schedules, observer reads and memo-table pokes; sibling/variant configs and an exhaustive ordered sibling-pair sweep (A,B / B before A / A,B,A), each history in a pristine forked child; differential against the stream of the same config in a fresh interpreter; the same configs in fresh interpreters with other PYTHONHASHSEED values (metamorphic: process-level hash order); the same parameters written in other call styles; schedules abandoned half-way, dropped and collected before the next one is built; id()-reuse probes (a schedule built at the address of a dropped one); delta-debugging minimiser",
                text="Histories create/advance/observe/poke/finish over up to 6 live objects of all classes; every object's recorded stream must equal the stream the same config produces in a fresh interpreter (prefix-equal if stopped early)."),
})

PENDING = []


NOT_APPLICABLE = [{"property_id": p, "reason": "check designed (DESIGN.md section 4) but not yet built in this commit; property-based testing applies"} for p in PENDING if p not in CHECKS]

HOOKS = {
    "guard": "CHECKPOINT_SCHEDULES_VERIF",
    "enable": "no source hooks are needed: every property is observable through the public iteration protocol; checks import the working tree from $VERIF_REPO (default /repo) first on sys.path",
    "baseline_off_cmd": "cd /repo && /venv/bin/python -m pytest -ra -q -p no:cacheprovider --timeout=900 -n 16 tests",
    "source_commits": [],
    "add_only": True,
}

ENGINES = [
    {"name": "hypothesis-stateful", "path": "vlib/props/c10.py, vlib/props/c15.py, vlib/golden.py", "serves_properties": ["C10", "C15"],
     "kind_free_text": "Hypothesis RuleBasedStateMachine (run_state_machine_as_test with seed(VERIF_SEED*1000+shard)), 16 shards"},
    {"name": "hypothesis+exhaustive-box", "path": "vlib/", "serves_properties": sorted(k for k in CHECKS if k not in ("C10", "C15")),
     "kind_free_text": "Hypothesis 6.168 strategies (seeded by VERIF_SEED) + itertools exhaustive boxes, executed on a 16-process pool; reference executor / independent oracles; deterministic coordinate-descent shrinker"},
]

NOTES = ("Single entry point ./check <ID> [--tier quick|thorough] [--replay FILE]; exit 0 held, exit 1 + VIOLATION line, "
         "exit 2 harness error/inconclusive. Library imported from $VERIF_REPO (default /repo). See DESIGN.md.")

#!/bin/bash
# tools/mut.sh <patch.diff> [--suite] <ID>...   : apply a patch to a scratch worktree of /repo HEAD,
# optionally run the pinned suite there, run the given checks (quick) against it, clean up.
# Evidence and replays of these runs go to /tmp, never into /verif/evidence.
patch="$(readlink -f "$1")"; shift
suite=0; if [ "$1" = "--suite" ]; then suite=1; shift; fi
here="$(cd "$(dirname "${BASH_SOURCE[0]}")/.." && pwd)"
wt=$(mktemp -d /tmp/mut_XXXXXX); rmdir "$wt"
git -C /repo worktree add -q --detach "$wt" HEAD || exit 2
trap 'git -C /repo worktree remove --force "$wt" >/dev/null 2>&1; rm -rf "$wt" /tmp/mut_ev_$$ /tmp/mut_rp_$$' EXIT
if ! git -C "$wt" apply "$patch"; then echo "PATCH-DOES-NOT-APPLY"; exit 2; fi
if [ $suite = 1 ]; then
  (cd "$wt" && PYTHONPATH="$wt" /venv/bin/python -m pytest -q -p no:cacheprovider --timeout=900 -n 16 tests 2>&1 | tail -1 | sed 's/^/SUITE: /')
fi
for id in "$@"; do
  out=$(cd "$here" && VERIF_REPO="$wt" VERIF_EVIDENCE_DIR=/tmp/mut_ev_$$ VERIF_REPLAY_DIR=/tmp/mut_rp_$$ ./check "$id" --tier "${MUT_TIER:-quick}" 2>&1)
  rc=$?
  echo "== $id exit=$rc"
  echo "$out" | grep -E "VIOLATION|bucket=|detail:|HARNESS|KNOWN" | head -${MUT_LINES:-6}
done

#!/venv/bin/python
"""tools/eval_seed.py <name> <dir-with-patch.diff,demo.py,meta.json> [--checks C01,C02..] [--no-suite]

Confirms a seeded change independently (patch applies to /repo HEAD in a scratch worktree,
pinned suite still passes there, demo.py fails with it and passes without), runs the quick
checks against it, and stores everything under /verif/seeded/<name>/.
"""
import json, os, shutil, subprocess, sys, tempfile, time

VERIF = os.path.dirname(os.path.dirname(os.path.abspath(__file__)))
ALL = ["C%02d" % i for i in range(1, 20)]


def sh(cmd, **kw):
    return subprocess.run(cmd, shell=True, capture_output=True, text=True, **kw)


def main():
    name, src = sys.argv[1], sys.argv[2]
    checks = ALL
    suite = "--no-suite" not in sys.argv
    for a in sys.argv[3:]:
        if a.startswith("--checks"):
            checks = a.split("=", 1)[1].split(",")
    dst = os.path.join(VERIF, "seeded", name)
    os.makedirs(dst, exist_ok=True)
    for f in ("patch.diff", "demo.py", "meta.json"):
        if os.path.abspath(src) != os.path.abspath(dst):
            shutil.copy(os.path.join(src, f), os.path.join(dst, f))
    meta = json.load(open(os.path.join(dst, "meta.json")))
    wt = tempfile.mkdtemp(prefix="seedwt_", dir="/tmp")
    os.rmdir(wt)
    res = {"name": name, "repo_head": sh("git -C /repo rev-parse --short HEAD").stdout.strip()}
    try:
        assert sh("git -C /repo worktree add -q --detach %s HEAD" % wt).returncode == 0
        d0 = sh("PYTHONPATH=%s /venv/bin/python %s/demo.py" % (wt, dst), cwd=wt)
        res["demo_without"] = d0.returncode
        ap = sh("git -C %s apply %s/patch.diff" % (wt, dst))
        res["patch_applies"] = ap.returncode == 0
        if not res["patch_applies"]:
            res["apply_error"] = ap.stderr[-400:]
        else:
            d1 = sh("PYTHONPATH=%s /venv/bin/python %s/demo.py" % (wt, dst), cwd=wt)
            res["demo_with"] = d1.returncode
            res["demo_with_output"] = (d1.stdout + d1.stderr)[-600:]
            if suite:
                t = sh("cd %s && PYTHONPATH=%s /venv/bin/python -m pytest -q -p no:cacheprovider --timeout=900 -n 16 tests 2>&1 | tail -1" % (wt, wt))
                res["suite"] = t.stdout.strip()
            caught = {}
            ev = tempfile.mkdtemp(prefix="seedev_", dir="/tmp")
            for c in checks:
                t0 = time.time()
                r = sh("cd %s && VERIF_REPO=%s VERIF_EVIDENCE_DIR=%s VERIF_REPLAY_DIR=%s ./check %s --tier quick" % (VERIF, wt, ev, ev, c))
                lines = [l for l in r.stdout.splitlines() if l.startswith("VIOLATION") or l.strip().startswith(("bucket=", "detail:", "witness:"))]
                caught[c] = {"exit": r.returncode, "seconds": round(time.time() - t0, 1), "report": lines[:8]}
                if r.returncode == 2:
                    caught[c]["stderr"] = r.stderr[-500:]
            shutil.rmtree(ev, ignore_errors=True)
            res["checks"] = caught
            res["caught_by"] = [c for c in checks if caught[c]["exit"] == 1]
            res["harness_errors"] = [c for c in checks if caught[c]["exit"] == 2]
    finally:
        sh("git -C /repo worktree remove --force %s" % wt)
        shutil.rmtree(wt, ignore_errors=True)
    prev = {}
    if os.path.exists(os.path.join(dst, "result.json")):
        prev = json.load(open(os.path.join(dst, "result.json")))
    if not suite and prev.get("suite"):
        res["suite"] = prev["suite"]
    if checks != ALL and prev.get("checks"):
        merged = dict(prev["checks"])
        merged.update(res.get("checks", {}))
        res["checks"] = merged
        res["caught_by"] = sorted(c for c in merged if merged[c]["exit"] == 1)
    meta["confirmed"] = {k: res.get(k) for k in ("repo_head", "patch_applies", "demo_without", "demo_with", "suite")}
    meta["what_i_ran"] = ("git worktree of /repo HEAD under /tmp; demo.py before the patch (exit %s) and after (exit %s); pinned suite with the patch: %s; "
                          "then ./check <ID> --tier quick for %s with VERIF_REPO pointing at the patched worktree" % (
                              res.get("demo_without"), res.get("demo_with"), res.get("suite"), ",".join(sorted(res.get("checks", {})))))
    meta["caught_by"] = res.get("caught_by")
    json.dump(meta, open(os.path.join(dst, "meta.json"), "w"), indent=1)
    json.dump(res, open(os.path.join(dst, "result.json"), "w"), indent=1)
    print(json.dumps({k: res.get(k) for k in ("name", "patch_applies", "demo_without", "demo_with", "suite", "caught_by", "harness_errors")}))
    tgt = meta.get("property")
    if tgt in res.get("checks", {}):
        for l in res["checks"][tgt]["report"][:4]:
            print("   ", l[:260])


if __name__ == "__main__":
    main()

#!/venv/bin/python
"""For every seeded change: apply it in a scratch worktree, run the TARGET check (quick), and keep the
shrunk replay files it writes as regress/<ID>/seeded_<name>__<bucket>.json - saved inputs on which the
property was once broken; the regress tier replays them at the start of every run (they pass on /repo)."""
import json, os, shutil, subprocess, sys, tempfile
V = os.path.dirname(os.path.dirname(os.path.abspath(__file__)))
names = sys.argv[1:] or sorted(os.listdir(os.path.join(V, "seeded")))
for name in names:
    d = os.path.join(V, "seeded", name)
    meta = json.load(open(os.path.join(d, "meta.json")))
    tgt = meta["property"]
    wt = tempfile.mkdtemp(prefix="wit_", dir="/tmp"); os.rmdir(wt)
    ev = tempfile.mkdtemp(prefix="witev_", dir="/tmp")
    try:
        subprocess.check_call("git -C /repo worktree add -q --detach %s HEAD && git -C %s apply %s/patch.diff" % (wt, wt, d), shell=True)
        r = subprocess.run("cd %s && VERIF_REPO=%s VERIF_EVIDENCE_DIR=%s VERIF_REPLAY_DIR=%s ./check %s --tier quick" % (V, wt, ev, ev, tgt),
                           shell=True, capture_output=True, text=True)
        rd = os.path.join(ev, tgt)
        got = []
        if os.path.isdir(rd):
            os.makedirs(os.path.join(V, "regress", tgt), exist_ok=True)
            for f in sorted(os.listdir(rd))[:3]:
                dst = os.path.join(V, "regress", tgt, "seeded_%s__%s" % (name, f))
                shutil.copy(os.path.join(rd, f), dst)
                got.append(os.path.basename(dst))
        print(name, tgt, "exit", r.returncode, got)
    finally:
        subprocess.call("git -C /repo worktree remove --force %s" % wt, shell=True)
        shutil.rmtree(ev, ignore_errors=True)

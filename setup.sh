#!/bin/bash
# Offline setup: make hypothesis importable by /venv/bin/python (it already is
# on this image; on a fresh restore that lacks it, install from the wheelhouse).
here="$(cd "$(dirname "${BASH_SOURCE[0]}")" && pwd)"
PY="${VERIF_PYTHON:-/venv/bin/python}"
export PIP_NO_INDEX=1
if "$PY" -c "import hypothesis, numpy" 2>/dev/null; then
  echo "setup: hypothesis $("$PY" -c 'import hypothesis; print(hypothesis.__version__)') already importable"
else
  "$PY" -m pip install --no-index --find-links /opt/veriftools/wheels hypothesis >/dev/null 2>&1 \
   || "$PY" -m pip install --no-index --find-links /opt/veriftools/wheels --target "$here/.deps" hypothesis || exit 1
fi
# optional secondary engine (thorough tier of C01 only); absence is tolerated
if ! PYTHONPATH="$here/.deps" "$PY" -c "import atheris" 2>/dev/null; then
  "$PY" -m pip install --no-index --find-links /opt/veriftools/wheels --target "$here/.deps" atheris >/dev/null 2>&1 \
    && echo "setup: atheris installed into .deps" || echo "setup: atheris not installable (optional)"
fi
exit 0
